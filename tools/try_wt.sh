#!/bin/bash
# tools/try_wt.sh Cxx <letter> <tier> [check id]: apply /tmp/mut-Cxx/mutant<letter>.diff in its scratch worktree, run one check against it, undo
pid=$1; m=$2; tier=${3:-quick}; cid=${4:-$1}
wt=${WT_PREFIX:-/tmp/mut-}$pid
git -C $wt checkout -q -- py34
git -C $wt apply $wt/mutant$m.diff || exit 9
cd /verif
BACPYPES_REPO=$wt VERIF_NO_EVIDENCE=1 ./check $cid $tier 2>&1 | grep -E "class=|seed=" | cut -c1-${COLS:-420} | head -${LINES_MAX:-6}
git -C $wt checkout -q -- py34
