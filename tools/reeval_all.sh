#!/bin/bash
# tools/reeval_all.sh : re-evaluate every filed mutant of the four waves against the current /repo HEAD and the current checks
# (scratch worktrees /tmp/mut-Cxx for letters A-D, /tmp/m3-Cxx for E-F, /tmp/m4-Cxx for G-H must exist); output /tmp/reeval/<id>-<letters>.out
H=$(git -C /repo rev-parse HEAD)
for d in /tmp/mut-C* /tmp/m3-C* /tmp/m4-C*; do git -C $d checkout -q -- py34 2>/dev/null; git -C $d checkout -q --detach $H; done
mkdir -p /tmp/reeval; rm -f /tmp/reeval/*.out /tmp/reeval/DONE
extras() {
  case $1 in
    C04) echo "C14 C11 C10";; C05) echo "C11 C10";; C10) echo "C14";; C15) echo "C17";; C17) echo "C14";; *) echo "";;
  esac
}
extras_gh() {
  case $1 in
    C03) echo "C01";; C04) echo "C11";; C09) echo "C13";; C12) echo "C11 C04";; C17) echo "C14";; C19) echo "C10";; C20) echo "C14";; *) echo "";;
  esac
}
jobs_file=/tmp/reeval/jobs.txt; : > $jobs_file
for i in $(seq -w 1 20); do
  id=C$i
  echo "/venv/bin/python /verif/tools/keep_mutants.py $id --letters=GH --wt=/tmp/m4- $(extras_gh $id) > /tmp/reeval/$id-GH.out 2>&1" >> $jobs_file
done
for i in $(seq -w 1 20); do
  id=C$i
  echo "/venv/bin/python /verif/tools/keep_mutants.py $id --letters=ABCD $(extras $id) > /tmp/reeval/$id-ABCD.out 2>&1" >> $jobs_file
  echo "/venv/bin/python /verif/tools/keep_mutants.py $id --letters=EF --wt=/tmp/m3- $(extras $id) > /tmp/reeval/$id-EF.out 2>&1" >> $jobs_file
done
xargs -P 5 -I{} sh -c "{}" < $jobs_file
cat /tmp/reeval/C*-*.out | grep -E "^C[0-9]+-[A-H]:|missing|does not apply" | sed 's/tests\[[^]]*\] //'
touch /tmp/reeval/DONE
