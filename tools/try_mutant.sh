#!/bin/bash
# tools/try_mutant.sh <worktree> <diff> <demo> <tier> <ids...>
# applies <diff> in the scratch worktree, checks that the repository's tests still pass and the demo fails,
# runs the named checks against the worktree (BACPYPES_REPO), then restores the worktree and checks the demo passes.
wt=$1; diff=$2; demo=$3; tier=$4; shift 4
cd "$wt" || exit 9
git checkout -q -- py34
git apply "$diff" || { echo "APPLY-FAILED"; exit 9; }
t=$(PYTHONPATH=$wt/py34 /venv/bin/python -m pytest -q -p no:cacheprovider --timeout=900 2>&1 | grep -E "passed|failed" | tail -1)
PYTHONPATH=$wt/py34 timeout 300 /venv/bin/python "$demo" > /tmp/demo.out 2>&1; d1=$?
echo "tests-with-mutant: $t | demo-with-mutant rc=$d1"
cd /verif
for id in "$@"; do
  out=$(BACPYPES_REPO=$wt VERIF_NO_EVIDENCE=1 timeout 3000 ./check $id $tier 2>&1); rc=$?
  echo "  check $id $tier rc=$rc $(echo "$out" | grep -E "class=" | head -3 | cut -c1-260 | tr '\n' ' ')"
done
cd "$wt"; git checkout -q -- py34
PYTHONPATH=$wt/py34 timeout 300 /venv/bin/python "$demo" > /tmp/demo.out 2>&1; d2=$?
echo "demo-on-clean rc=$d2"
