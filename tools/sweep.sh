#!/bin/bash
# tools/sweep.sh <tier> <seeds> <ids...> : run checks over several VERIF_SEED values; prints failures + a summary
tier=$1; seeds=$2; shift 2
cd "$(dirname "$0")/.."
ok=0; bad=0
for id in "$@"; do for s in $seeds; do
  out=$(VERIF_SEED=$s ./check $id $tier 2>&1); rc=$?
  if [ $rc -ne 0 ]; then bad=$((bad+1)); echo "$id seed=$s rc=$rc $(echo "$out" | grep -E "VIOLATION|INCONCLUSIVE|class=" | head -4 | cut -c1-300 | tr '\n' ' ')";
  else ok=$((ok+1)); fi
done; done
echo "sweep $tier: $ok ok, $bad not ok"
