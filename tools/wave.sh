#!/bin/bash
# tools/wave.sh <letters> <id> [<id> ...] : evaluate delivered mutants of several properties, four properties at a time
letters=$1; shift
wtopt=""
case "$1" in --wt=*) wtopt="$1"; shift;; esac
mkdir -p /tmp/wave
printf '%s\n' "$@" | xargs -P 4 -I{} sh -c "/venv/bin/python /verif/tools/keep_mutants.py {} --letters=$letters $wtopt > /tmp/wave/{}.out 2>&1"
for id in "$@"; do echo "== $id"; cat /tmp/wave/$id.out; done
