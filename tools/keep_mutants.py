#!/usr/bin/env python3
"""
tools/keep_mutants.py Cxx [extra check ids...]

For the two mutants a sub-agent left in /tmp/mut-Cxx (mutantA.diff/demoA.py, mutantB.diff/demoB.py, notes.md):
confirm that the repository's tests pass with the mutant, the demo fails with it and passes without it, run the
property's check (quick, then thorough if quick misses) against the scratch worktree, and file everything under
/verif/seeded/Cxx-A, /verif/seeded/Cxx-B (patch.diff, demo.py, notes.md, meta.json).
"""
import json
import os
import shutil
import subprocess
import sys
import time

VERIF = os.path.dirname(os.path.dirname(os.path.abspath(__file__)))


def sh(cmd, cwd=None, env=None, timeout=3600):
    e = dict(os.environ)
    if env:
        e.update(env)
    p = subprocess.run(cmd, shell=True, cwd=cwd, env=e, stdout=subprocess.PIPE, stderr=subprocess.STDOUT, timeout=timeout)
    return p.returncode, p.stdout.decode("utf-8", "replace")


def main():
    pid = sys.argv[1]
    letters = "AB"
    args = sys.argv[2:]
    if args and args[0].startswith("--letters="):
        letters = args[0].split("=", 1)[1]
        args = args[1:]
    prefix = "/tmp/mut-"
    if args and args[0].startswith("--wt="):
        prefix = args[0].split("=", 1)[1]
        args = args[1:]
    extra = args
    wt = prefix + pid
    try:
        summaries = json.load(open(os.path.join(VERIF, "seeded", "summaries.json")))
    except Exception:
        summaries = {}
    prop = None
    for line in open(os.path.join(VERIF, "properties.jsonl")):
        p = json.loads(line)
        if p["id"] == pid:
            prop = p
    for m in letters:
        diff = os.path.join(wt, "mutant%s.diff" % m)
        demo = os.path.join(wt, "demo%s.py" % m)
        if not (os.path.exists(diff) and os.path.exists(demo)):
            print(pid, m, "missing deliverable")
            continue
        sh("git checkout -q -- py34", cwd=wt)
        rc, out = sh("git apply %s" % diff, cwd=wt)
        if rc:
            print(pid, m, "diff does not apply:", out[:200])
            continue
        rc, out = sh("PYTHONPATH=%s/py34 /venv/bin/python -m pytest -q -p no:cacheprovider --timeout=900 2>&1 | grep -E 'passed|failed' | tail -1" % wt, cwd=wt)
        tests = out.strip()
        rc_demo_mut, out_demo = sh("PYTHONPATH=%s/py34 timeout 300 /venv/bin/python %s" % (wt, demo), cwd=wt)
        results = {}
        caught_by = []
        for cid in [pid] + extra:
            for tier in ("quick", "thorough"):
                t0 = time.time()
                rc, out = sh("./check %s %s" % (cid, tier), cwd=VERIF, env={"BACPYPES_REPO": wt, "VERIF_NO_EVIDENCE": "1"}, timeout=3500)
                classes = [l.strip()[:300] for l in out.splitlines() if l.strip().startswith("class=")]
                results["%s/%s" % (cid, tier)] = {"exit": rc, "seconds": round(time.time() - t0, 1), "violation_classes": classes[:6],
                                                 "last_line": out.strip().splitlines()[-1][:200] if out.strip() else ""}
                if rc == 1:
                    caught_by.append("%s %s" % (cid, tier))
                    break
        sh("git checkout -q -- py34", cwd=wt)
        rc_demo_clean, _ = sh("PYTHONPATH=%s/py34 timeout 300 /venv/bin/python %s" % (wt, demo), cwd=wt)
        ok = ("failed" not in tests) and rc_demo_mut != 0 and rc_demo_clean == 0
        dest = os.path.join(VERIF, "seeded", "%s-%s" % (pid, m))
        status = "kept" if ok else "rejected"
        print("%s-%s: tests[%s] demo(mutant)=%d demo(clean)=%d -> %s; caught by: %s" % (pid, m, tests, rc_demo_mut, rc_demo_clean, status, caught_by or "NOTHING"))
        for k, v in results.items():
            print("     %s exit=%s %s" % (k, v["exit"], (v["violation_classes"] or [v["last_line"]])[0][:200]))
        if not ok:
            continue
        os.makedirs(dest, exist_ok=True)
        shutil.copy(diff, os.path.join(dest, "patch.diff"))
        shutil.copy(demo, os.path.join(dest, "demo.py"))
        notes = os.path.join(wt, "notes.md" if m in "AB" else "notes2.md" if m in "CD" else "notes3.md" if m in "EF" else "notes4.md")
        if os.path.exists(os.path.join(wt, "notes%s.md" % m)):
            notes = os.path.join(wt, "notes%s.md" % m)
        if os.path.exists(notes):
            shutil.copy(notes, os.path.join(dest, "notes.md"))
        meta = {
            "property": pid,
            "title": prop["title"] if prop else None,
            "mutant": m,
            "source": "fresh sub-agent given only the property text and its own scratch worktree of /repo (HEAD incl. the fix: commits)",
            "needs_to_manifest": "see notes.md (section for mutant %s)" % m,
            "confirmed": {
                "repository_tests_with_mutant": tests,
                "demo_exit_with_mutant": rc_demo_mut,
                "demo_exit_on_clean_tree": rc_demo_clean,
                "demo_output_with_mutant": out_demo.strip()[-400:],
            },
            "what_was_run": ["git apply patch.diff (scratch worktree)", "repository test suite with PYTHONPATH=<worktree>/py34",
                             "demo.py with and without the patch", "BACPYPES_REPO=<worktree> ./check <id> quick (thorough when quick misses)"],
            "checks": results,
            "caught_by": caught_by,
        }
        sm = summaries.get("%s-%s" % (pid, m))
        if sm:
            meta["summary"] = sm[0]
            meta["needs_to_manifest_summary"] = sm[1]
        with open(os.path.join(dest, "meta.json"), "w") as f:
            json.dump(meta, f, indent=1)


main()
