#!/usr/bin/env python3
"""tools/regen_table.py : put the current seeded-mutant table (tools/mutant_table.py) into DESIGN.md section 7.1 and print counts"""
import collections
import os
import re
import subprocess
HERE = os.path.dirname(os.path.dirname(os.path.abspath(__file__)))
p = os.path.join(HERE, "DESIGN.md")
s = open(p).read()
tab = subprocess.check_output(["python3", os.path.join(HERE, "tools", "mutant_table.py")]).decode().rstrip("\n")
i = s.index("| mutant | file | caught by | violation class reported | what it is |")
j = s.index("\n\n", i)
open(p, "w").write(s[:i] + tab + s[j:])
rows = [l for l in tab.splitlines() if re.match(r"\| C\d\d-[A-I] ", l)]
c = collections.Counter()
for l in rows:
    cells = [x.strip() for x in l.split("|")]
    mid, caught = cells[1], cells[3]
    own = mid[:3]
    k = "withdrawn" if caught.startswith("withdrawn") else "missed" if "missed" in caught else "own quick" if (own + " quick") in caught \
        else "own thorough" if (own + " thorough") in caught else "sibling only"
    c[("wave 5" if mid[-1] == "I" else "wave 4" if mid[-1] in "GH" else "waves 1-3", k)] += 1
print(len(rows), "rows")
for k, v in sorted(c.items()):
    print(k, v)
