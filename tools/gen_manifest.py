#!/usr/bin/env python3
"""Regenerate /verif/MANIFEST.json from rv/registry.py (keeps it schema-valid)."""
import json, os, sys
HERE = os.path.dirname(os.path.dirname(os.path.abspath(__file__)))
sys.path.insert(0, HERE)
from rv.registry import CHECKS, NOT_APPLICABLE, HOOKS, NOTES

def main():
    checks = []
    for pid in sorted(CHECKS):
        c = CHECKS[pid]
        checks.append({
            "property_id": pid,
            "quick_cmd": "./check %s quick" % pid,
            "thorough_cmd": "./check %s thorough" % pid,
            "evidence_file": "evidence/%s.json" % pid,
            "replay_cmd_template": "./check %s replay {path}" % pid,
            "engine": "rv",
            "level_claimed": {"category": c["level"], "text": c["text"], "design_ref": c["design_ref"]},
            "level_note": c["note"],
            "technique": c["technique"],
        })
    man = {
        "version": 1,
        "setup_cmd": "./check setup",
        "hooks": HOOKS,
        "engines": [{"name": "rv", "path": "rv/", "serves_properties": sorted(CHECKS),
                     "kind_free_text": "runtime monitors: reference-model oracles, boundary recorders and invariant "
                                       "hooks attached from the harness to the real bacpypes code running under a "
                                       "virtual clock / fault-injecting virtual LAN"}],
        "checks": checks,
        "notes": NOTES,
        "not_applicable": [{"property_id": k, "reason": v} for k, v in sorted(NOT_APPLICABLE.items())],
    }
    with open(os.path.join(HERE, "MANIFEST.json"), "w") as f:
        json.dump(man, f, indent=1)
    try:
        sys.path.append(os.path.join(HERE, ".deps"))
        import jsonschema
        jsonschema.validate(man, json.load(open("/root/.vp/MANIFEST.schema.json")))
        print("MANIFEST.json valid,", len(checks), "checks,", len(NOT_APPLICABLE), "not applicable")
    except ImportError:
        print("written (jsonschema not available)")

main()
