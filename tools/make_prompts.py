#!/usr/bin/env python3
"""tools/make_prompts.py <wave-dir-prefix> <letters> : write one prompt file per property for a fresh sub-agent
(only the property text, its scratch worktree, and one line per regression already produced for that property).
Nothing about /verif's checks goes into a prompt."""
import json, os, sys, glob

VERIF = os.path.dirname(os.path.dirname(os.path.abspath(__file__)))
prefix, letters = sys.argv[1], sys.argv[2]          # e.g. /tmp/m3- EF
summ = json.load(open(os.path.join(VERIF, "seeded", "summaries.json")))
for line in open(os.path.join(VERIF, "properties.jsonl")):
    p = json.loads(line)
    pid = p["id"]
    wt = prefix + pid
    earlier = []
    for d in sorted(glob.glob(os.path.join(VERIF, "seeded", pid + "-*"))):
        name = os.path.basename(d)
        m = json.load(open(os.path.join(d, "meta.json")))
        s = m.get("summary") or (summ.get(name) or [""])[0]
        if s:
            earlier.append(s)
    for name, v in summ.items():
        if name.startswith(pid + "-") and v[0] not in earlier:
            earlier.append(v[0])
    a, b = letters[0], letters[1]
    text = """You are working in a scratch git worktree of the pure-Python BACnet library "bacpypes" at {wt} .
The library source that matters is {wt}/py34/bacpypes . Run anything with
  PYTHONPATH={wt}/py34 /venv/bin/python ...
(the interpreter's site-packages holds another copy of bacpypes: without that PYTHONPATH you would not be running the worktree's code).
The existing test suite is run with:
  cd {wt} && PYTHONPATH={wt}/py34 /venv/bin/python -m pytest -q -p no:cacheprovider --timeout=900
(about 2 seconds, 405 tests pass on the unmodified tree).
Work ONLY inside {wt} . Do not read, list or modify /verif or /repo or any other directory under /tmp. There is no network.

A semantic property the library is supposed to satisfy:

Property {pid}: {title}

Statement: {statement}

Quantifier (what it must hold for): {quant}

Relevant source files: {files}


Regressions for this property that were already produced earlier; do NOT repeat them or close variants of them, find different code sites and different mechanisms, and prefer ones that are harder to expose (need rarer inputs, longer histories, specific timing or fault placement, an unusual but legitimate configuration, or an interaction with another part of the library):
{earlier}


YOUR TASK: act as a source of realistic regressions. Produce TWO different small changes ("mutants") to the library source under py34/bacpypes, each of which
  (a) breaks the property above, on the real code,
  (b) still lets the whole existing test suite pass (run it!),
  (c) is the kind of mistake a maintainer could plausibly make (off-by-one, dropped or inverted condition, wrong variable, reordered statements, missing cleanup, wrong constant, wrong comparison operator, lost update, stale cache, shared mutable state ...) - a few lines at most, no new files, no obviously sabotaging code,
  (d) needs something SPECIFIC to manifest - a particular interleaving or timing, a lost/duplicated/late packet at a particular point, a multi-step sequence of operations, an unusual or boundary input, or two cooperating sites that each look fine alone. It must NOT be exposed at once by ordinary everyday use of the library. Prefer subtle over blunt. The two mutants should break the property through different mechanisms / different code sites. The change may be in any file of py34/bacpypes that the property's behaviour depends on, not only the listed ones.

For each mutant deliver, inside {wt} :
  - mutant{a}.diff / mutant{b}.diff : output of `git diff` for that change alone (relative to the clean worktree), applicable with `git apply`,
  - demo{a}.py / demo{b}.py : a small self-contained program (run as `PYTHONPATH={wt}/py34 /venv/bin/python demo{a}.py`) that exercises the real library and exits 0 on the unmodified source and exits non-zero (with a short message saying what went wrong) when the corresponding mutant is applied. Verify both directions yourself (apply the diff, run, `git checkout -- py34`, run again). The demo may use the test helpers in {wt}/tests (virtual networks, time machine) if useful.
  - notes3.md : for each mutant: file and lines changed, why it breaks the property, exactly what is needed for it to manifest, and the commands you ran with their results (test suite result with the mutant applied, demo result with and without).
If, while doing this, you notice that the UNMODIFIED library itself violates the property for some input or history, say so at the end of notes3.md with the exact reproduction (that is valuable too), but still deliver the two mutants.
Leave the worktree's py34 directory clean (unmodified) at the end; the .diff, demo and notes files are the deliverable.
Finish with a short report repeating the essentials of notes3.md.
""".format(wt=wt, pid=pid, title=p["title"], statement=p["statement"], quant=p["quantifier"]["text"],
           files=", ".join(p["anchors"]["files"]), earlier="\n".join("  - " + e for e in earlier), a=a, b=b)
    out = "/tmp/prompt%s-%s.txt" % (prefix.rstrip("-").split("/")[-1], pid)
    open(out, "w").write(text)
    print(out, len(earlier))
