#!/usr/bin/env python3
"""print the seeded-mutant table (markdown) from seeded/*/meta.json and notes"""
import json, os, glob, re
HERE = os.path.dirname(os.path.dirname(os.path.abspath(__file__)))
rows = []
for d in sorted(glob.glob(os.path.join(HERE, "seeded", "*"))):
    mp = os.path.join(d, "meta.json")
    if not os.path.exists(mp):
        continue
    m = json.load(open(mp))
    diff = open(os.path.join(d, "patch.diff")).read()
    files = sorted(set(re.findall(r"^\+\+\+ b/(\S+)", diff, re.M)))
    cls = ""
    for k, v in m["checks"].items():
        if v["exit"] == 1 and v["violation_classes"]:
            c = v["violation_classes"][0]
            cls = c.split(" count=")[0].replace("class=", "")
            break
    rows.append((os.path.basename(d), ", ".join(f.replace("py34/bacpypes/", "") for f in files), ", ".join(m["caught_by"]) or ("withdrawn" if str(m.get("status", "")).startswith("withdrawn") else "**missed**"), cls, m.get("summary", "")))
print("| mutant | file | caught by | violation class reported | what it is |")
print("|---|---|---|---|---|")
for r in rows:
    print("| %s | %s | %s | `%s` | %s |" % r)
