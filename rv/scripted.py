"""
A scripted, non-bacpypes peer on the virtual LAN that plays the server side of
one (possibly segmented) confirmed transaction with parameters a bacpypes stack
never chooses itself: it may grant a larger window for receiving than it
proposes for sending, acknowledge at its own pace, withhold or delay single
acknowledgements, and answer in segments of any size.

The peer is workload, not oracle: frames are built with rv.wire, the service
part of the answer with the library's encoder.  The oracle is `judge()`, which
reads the LAN's frame log only.
"""

from bacpypes.comm import Client, bind
from bacpypes.pdu import Address, PDU
from bacpypes.vlan import Node
from bacpypes.task import FunctionTask
from bacpypes.apdu import ConfirmedPrivateTransferACK, ComplexAckPDU
from bacpypes.constructeddata import Any
from bacpypes.primitivedata import OctetString

from . import wire as W
from .stacks import payload_for, decode_frame


class ScriptedServerPeer(Client):

    def __init__(self, lan, address, max_apdu, grant, propose, seg_size, rsp_size, token,
                 withhold=None, ack_every=None, resend_after=1.0, grants=None):
        """grant: window it writes into its SegmentAcks (capped by what the requester proposed); propose: window it
        proposes in the first segment of its answer; seg_size: service octets per answer segment; withhold: None |
        'final-ack' (never sent) | 'final-ack-late' (sent after the first answer segment)"""
        Client.__init__(self)
        self.address = Address(address)
        self.node = Node(self.address, lan)
        bind(self, self.node)
        self.max_apdu, self.grant, self.propose, self.seg_size = max_apdu, grant, propose, seg_size
        self.rsp_size, self.token = rsp_size, token
        self.withhold, self.ack_every, self.resend_after = withhold, ack_every, resend_after
        self.grants = grants          # windows granted by the successive SegmentAcks (the last one repeats); None: always `grant`
        self.acks_sent = 0
        self.client_win = None
        self.req = {}               # seq -> octets of the request in progress
        self.req_done = False
        self.actual_rx = None
        self.since_ack = 0
        self.answer = None          # list of chunks
        self.client = None
        self.invoke = None
        self.acked_upto = -1        # answer segments acknowledged by the requester
        self.sent_upto = -1
        self.tx_window = None
        self.resends = 0
        self.timer = None
        self.finished = False
        self.log = []

    # ---- sending
    def send(self, apci):
        octets = W.npci_build({"payload": W.apci_build(apci)})
        self.request(PDU(octets, destination=self.client))

    def seg_ack(self, seq, nak=False):
        if self.grants and self.client_win is not None:
            # a peer may change the window it grants from one acknowledgement to the next (it is short of buffers now)
            self.acks_sent += 1
            g = self.grants[min(self.acks_sent - 1, len(self.grants) - 1)]
            self.actual_rx = max(1, min(self.client_win, g))
        self.send({"type": W.SEGMENT_ACK, "nak": nak, "srv": True, "invoke": self.invoke, "seq": seq & 0xFF, "win": self.actual_rx})

    def build_answer(self):
        ack = ConfirmedPrivateTransferACK(vendorID=999, serviceNumber=self.token)
        ack.resultBlock = Any(OctetString(payload_for(self.token, self.rsp_size)))
        pdu = ComplexAckPDU()
        ack.encode(pdu)
        body = bytes(pdu.pduData)
        self.answer = [body[i:i + self.seg_size] for i in range(0, len(body), self.seg_size)] or [b""]

    def send_answer_segment(self, k):
        n = len(self.answer)
        if n == 1:
            self.send({"type": W.COMPLEX_ACK, "seg": False, "mor": False, "invoke": self.invoke, "service": 18, "payload": self.answer[0]})
            self.finished = True
            return
        self.send({"type": W.COMPLEX_ACK, "seg": True, "mor": k < n - 1, "invoke": self.invoke, "seq": k & 0xFF, "win": self.propose,
                   "service": 18, "payload": self.answer[k]})
        self.sent_upto = max(self.sent_upto, k)

    def start_answer(self):
        self.build_answer()
        self.send_answer_segment(0)
        if len(self.answer) > 1:
            self.arm()
            if self.withhold == "final-ack-late":
                self.seg_ack(max(self.req))

    def arm(self):
        if self.timer is not None:
            self.timer.suspend_task()
        self.timer = FunctionTask(self.timeout)
        self.timer.install_task(delta=self.resend_after)

    def timeout(self):
        if self.finished or self.resends >= 4:
            return
        self.resends += 1
        # resend everything not yet acknowledged within the window in use
        w = self.tx_window or 1
        for k in range(self.acked_upto + 1, min(len(self.answer), self.acked_upto + 1 + w)):
            self.send_answer_segment(k)
        self.arm()

    # ---- receiving
    def confirmation(self, pdu):
        try:
            np = W.npci_parse(bytes(pdu.pduData))
            if np["net_message"] is not None:
                return
            ap = W.apci_parse(np["payload"])
        except W.Malformed:
            return
        self.client = pdu.pduSource
        if ap["type"] == W.CONFIRMED:
            self.invoke = ap["invoke"]
            if not ap["seg"]:
                self.req = {0: ap["payload"]}
                self.req_done = True
                self.start_answer()
                return
            if self.req_done:
                return              # duplicate of a finished request: silent
            seq = ap["seq"]
            expected = len(self.req)
            if seq != expected & 0xFF:
                self.seg_ack((expected - 1) & 0xFF, nak=True)
                return
            self.req[expected] = ap["payload"]
            if expected == 0:
                self.client_win = ap["win"]
                self.actual_rx = max(1, min(ap["win"], self.grant))
                self.since_ack = 0
                self.seg_ack(0)
                return
            self.since_ack += 1
            last = not ap["mor"]
            if last:
                self.req_done = True
                if self.withhold not in ("final-ack", "final-ack-late"):
                    self.seg_ack(seq)
                self.start_answer()
            elif self.since_ack >= (self.ack_every or self.actual_rx):
                self.since_ack = 0
                self.seg_ack(seq)
        elif ap["type"] == W.SEGMENT_ACK and not ap["srv"] and self.answer is not None:
            # the requester acknowledges answer segments
            base = self.acked_upto + 1
            k = (base & ~0xFF) | ap["seq"]
            if k < base - 1:
                k += 256
            if k > self.sent_upto:
                return
            self.acked_upto = max(self.acked_upto, k)
            self.tx_window = max(1, min(ap["win"], self.propose))
            self.log.append(("ack", ap["seq"], ap["win"], ap["nak"]))
            if self.acked_upto >= len(self.answer) - 1:
                self.finished = True
                if self.timer is not None:
                    self.timer.suspend_task()
                return
            for j in range(self.acked_upto + 1, min(len(self.answer), self.acked_upto + 1 + self.tx_window)):
                self.send_answer_segment(j)
            self.arm()
        elif ap["type"] == W.ABORT:
            self.finished = True
            if self.timer is not None:
                self.timer.suspend_task()


def judge(frames, requester, peer, peer_max_apdu, requester_window, report, stats):
    """what the requester (a bacpypes stack) put on the wire towards the scripted peer, against what the peer said"""
    granted = None              # window in the peer's latest SegmentAck for the request
    acked = -1                  # highest request segment the peer acknowledged (absolute index)
    sent_hi = -1
    proposed = None             # window the peer proposed in the first segment of its answer
    permit = 0                  # highest request segment any acknowledgement so far allows
    for rec in frames:
        d = decode_frame(rec)
        ap = d.get("apci")
        if not ap:
            continue
        if d["src"] == str(peer):
            if ap["type"] == W.SEGMENT_ACK and ap["srv"]:
                granted = ap["win"]
                k = (max(acked, 0) & ~0xFF) | ap["seq"]
                if k < acked:
                    k += 256
                acked = max(acked, k) if not ap["nak"] else acked
                # frames travel one after the other: when the requester sends a segment it may be acting on an acknowledgement
                # that is already followed by newer ones on the wire.  A segment is in order when SOME acknowledgement sent
                # so far allows it (acknowledged + window)
                permit = max(permit, k + ap["win"])
            elif ap["type"] == W.COMPLEX_ACK and ap["seg"] and ap["seq"] == 0:
                proposed = ap["win"]
            continue
        if d["src"] != str(requester):
            continue
        stats["requester_frames_judged"] = stats.get("requester_frames_judged", 0) + 1
        if d["apdu_len"] > peer_max_apdu and ap["type"] == W.CONFIRMED:
            report("request-apdu-longer-than-peer-announced/scripted-peer", {"apdu_len": d["apdu_len"], "peer_max_apdu": peer_max_apdu, "frame": rec["n"]})
        if ap["type"] == W.CONFIRMED and ap["seg"]:
            if not (1 <= ap["win"] <= 127):
                report("window-out-of-range/request", {"win": ap["win"]})
            k = (max(sent_hi, 0) & ~0xFF) | ap["seq"]
            if k < sent_hi - 128:
                k += 256
            if k > sent_hi:
                sent_hi = k
                # how far ahead of the last acknowledgement?
                if k > permit and not (granted is None and k == 0):
                    report("more-request-segments-outstanding-than-the-peer-granted", {"segment": k, "acknowledged": acked, "granted": granted, "frame": rec["n"]})
        elif ap["type"] == W.SEGMENT_ACK and not ap["srv"]:
            stats["answer_acks_judged"] = stats.get("answer_acks_judged", 0) + 1
            if not (1 <= ap["win"] <= 127):
                report("window-out-of-range/segment-ack", {"win": ap["win"]})
            elif proposed is not None and ap["win"] > proposed:
                report("actual-window-above-proposed/scripted-peer", {"actual": ap["win"], "proposed_by_peer": proposed, "frame": rec["n"]})
            elif ap["win"] > requester_window:
                # not demanded by the statement (only "never above what the other side proposed"): recorded only
                stats["acks_granting_more_than_own_proposed_window"] = stats.get("acks_granting_more_than_own_proposed_window", 0) + 1
