"""
Oracles on primitive values (C01) that can be used from a driver loop and as
attached monitors on the real encode/decode methods.
"""

import math
import struct
import inspect
import importlib

from . import common

common.bootstrap()

from . import refcodec as R

from bacpypes.pdu import PDUData
from bacpypes.primitivedata import Tag, Atomic, Enumerated, BitString, ObjectIdentifier
import bacpypes.primitivedata as _pd

MODULES = ("bacpypes.primitivedata", "bacpypes.basetypes", "bacpypes.apdu", "bacpypes.object",
           "bacpypes.constructeddata")

_classes = None


def atomic_classes():
    global _classes
    if _classes is None:
        seen = {}
        for mname in MODULES:
            mod = importlib.import_module(mname)
            for name, obj in vars(mod).items():
                if inspect.isclass(obj) and issubclass(obj, Atomic) and obj is not Atomic \
                        and getattr(obj, "_app_tag", None) is not None:
                    seen[obj.__module__ + "." + obj.__name__] = obj
        _classes = [seen[k] for k in sorted(seen)]
    return _classes


def kind_of(cls):
    return cls._app_tag


def enum_table(cls):
    """name -> number from the class's own tables (data, not code)"""
    table = {}
    for c in reversed(cls.__mro__):
        table.update(getattr(c, "enumerations", {}) or {})
    return table


def _f32(x):
    try:
        return struct.pack(">f", x)
    except (OverflowError, struct.error):
        return None


def norm_value(cls, value):
    """library value -> model value (see DESIGN C01 'equality per kind')"""
    kind = kind_of(cls)
    if kind == R.NULL:
        return ()
    if kind == R.BOOLEAN:
        return bool(value)
    if kind in (R.UNSIGNED, R.INTEGER):
        return int(value)
    if kind == R.ENUM:
        if isinstance(value, str):
            return enum_table(cls)[value]
        return int(value)
    if kind == R.REAL:
        return float(value)
    if kind == R.DOUBLE:
        return float(value)
    if kind == R.OCTETS:
        return bytes(value)
    if kind == R.CHARS:
        return value
    if kind == R.BITS:
        return [int(b) for b in value]
    if kind in (R.DATE, R.TIME):
        return tuple(value)
    if kind == R.OBJID:
        t, i = value
        if isinstance(t, str):
            t = enum_table(cls.objectTypeClass)[t]
        return (t, i)
    raise ValueError(kind)


def same(kind, a, b):
    if kind == R.REAL:
        fa, fb = _f32(a), _f32(b)
        if fa is None or fb is None:
            return False
        if math.isnan(a) and math.isnan(b):
            return True
        return fa == fb
    if kind == R.DOUBLE:
        if math.isnan(a) and math.isnan(b):
            return True
        return struct.pack(">d", a) == struct.pack(">d", b)
    return a == b


def must_encode(kind, m):
    if kind in (R.UNSIGNED, R.ENUM):
        return 0 <= m <= 0xFFFFFFFF
    if kind == R.INTEGER:
        return -(1 << 31) <= m < (1 << 31)
    return True


def model_of_input(cls, v):
    """what a canonical Python input denotes, or None when the input form is
    not a plain model value (then only the accepted value is used)"""
    kind = kind_of(cls)
    try:
        if kind == R.ENUM and isinstance(v, str):
            return enum_table(cls).get(v)
        if kind == R.OBJID:
            if isinstance(v, int):
                return (v >> 22, v & 0x3FFFFF) if 0 <= v <= 0xFFFFFFFF else None
            t, i = v
            if isinstance(t, str):
                t = enum_table(cls.objectTypeClass)[t]
            return (t, i)
        if kind == R.BITS:
            if v and isinstance(v[0], str):
                return None
            return [int(b) for b in v]
        if kind == R.NULL:
            return ()
        if kind in (R.REAL, R.DOUBLE):
            return float(v)
        if kind == R.OCTETS:
            return bytes(v)
        return v
    except Exception:
        return None


def lib_encode_app(obj):
    tag = Tag()
    obj.encode(tag)
    pdu = PDUData()
    tag.encode(pdu)
    return tag, bytes(pdu.pduData)


def lib_decode_one(octets):
    pdu = PDUData(octets)
    tag = Tag(pdu)
    return tag, bytes(pdu.pduData)


def check_atomic_value(run, cls, v, ctx_numbers):
    """the C01 oracle for one (class, value)"""
    kind = kind_of(cls)
    cname = cls.__module__ + "." + cls.__name__
    wit = {"class": cname, "value_repr": repr(v)[:300] if not isinstance(v, (bytes, bytearray, str, list)) or len(v) < 80
           else repr(v[:40]) + "...len=%d" % len(v)}
    try:
        obj = cls(v) if not (kind == R.NULL and v is None) else cls()
    except Exception as err:
        run.count("ctor_refused")
        run.seen("ctor_refusal_types", type(err).__name__)
        if kind == R.ENUM and isinstance(v, str) and any(v in getattr(k, "enumerations", {}) for k in cls.__mro__):
            # a name the class (or the enumeration it is derived from) declares
            run.violation("declared-enumeration-name-refused/" + type(err).__name__, dict(wit, error=repr(err)[:100]))
        if kind == R.OBJID and isinstance(v, tuple) and len(v) == 2 and isinstance(v[0], str) and isinstance(v[1], int) \
                and 0 <= v[1] <= 0x3FFFFF and v[0] in enum_table(cls.objectTypeClass):
            # an object type name the identifier's type enumeration declares
            run.violation("declared-object-type-name-refused/" + type(err).__name__, dict(wit, error=repr(err)[:100]))
        return
    if kind == R.OBJID and isinstance(v, int) and not isinstance(v, bool) and not (0 <= v <= 0xFFFFFFFF):
        # a word that does not fit the 10 + 22 bits cannot denote an object identifier: accepting it means wrapping it
        run.violation("constructor-altered-value/object-identifier-word-out-of-range", dict(wit, accepted=repr(obj.value)[:80]))
        return
    try:
        m = norm_value(cls, obj.value)
    except Exception as err:
        run.violation("accepted-value-not-interpretable/%s" % cls.__name__, dict(wit, error=repr(err)))
        return
    mi = model_of_input(cls, v)
    if mi is not None and not same(kind, mi, m) and not (kind == R.REAL and _f32(mi) is None):
        run.violation("constructor-altered-value/kind%d" % kind, dict(wit, accepted=repr(m)[:200]))
        return

    # what the standard says
    try:
        content = R.encode_primitive(kind, m)
        exp_app = R.app_tag_octets(kind, m)
        representable = True
    except R.Unrepresentable:
        content = exp_app = None
        representable = False

    sig = (cname, repr(m)[:200] if not isinstance(m, (bytes, str, list)) else (len(m), hash(str(m))))
    try:
        tag, octets = lib_encode_app(obj)
    except Exception as err:
        run.case((sig, "app", "refused"))
        run.count("refusals")
        run.seen("refusal_types", type(err).__name__)
        if representable and must_encode(kind, m):
            run.violation("refused-representable-value/kind%d/%s" % (kind, type(err).__name__),
                          dict(wit, error=repr(err)[:200]))
        return

    run.case((sig, "app"), sample={"class": cname, "value": wit["value_repr"][:80], "octets": octets[:24]},
             sample_key=("k", kind))
    if not representable:
        # octets were produced for something the standard cannot carry: what do they decode to?
        back = None
        try:
            t2, rest = lib_decode_one(octets)
            back = norm_value(cls, cls(t2).value)
        except Exception as err:
            back = "decode raised " + type(err).__name__
        run.violation("encoded-unrepresentable-value/kind%d" % kind, dict(wit, octets=octets[:40], decodes_to=repr(back)[:200]))
        return
    run.count("octets_compared")
    if octets != exp_app:
        # is it "only" non canonical, or does it decode to another value?
        back = None
        try:
            t2, rest = lib_decode_one(octets)
            back = norm_value(cls, cls(t2).value)
        except Exception as err:
            back = "decode raised " + type(err).__name__
        altered = not (back is not None and not isinstance(back, str) and same(kind, back, m)) if kind != R.CHARS else back != m
        run.violation(("silently-altered-value/kind%d" if altered else "non-canonical-octets/kind%d") % kind,
                      dict(wit, octets=octets[:40], expected=exp_app[:40], decodes_to=repr(back)[:200]))
        return

    # decode what was produced (application form)
    try:
        t2, rest = lib_decode_one(octets)
        if rest:
            run.violation("decoder-left-octets/kind%d" % kind, dict(wit, octets=octets[:40]))
            return
        obj2 = cls(t2)
        m2 = norm_value(cls, obj2.value)
        run.count("decodes_compared")
        if not same(kind, m2, m):
            run.violation("decode-differs/app/kind%d" % kind, dict(wit, octets=octets[:40], decoded=repr(m2)[:200]))
            return
        if kind == R.OBJID and isinstance(v, tuple) and isinstance(v[0], str) and tuple(obj2.value)[0] != v[0]:
            # the type was given by a name the class knows: it comes back under that name (tables are keyed by it)
            run.violation("object-type-name-does-not-survive", dict(wit, octets=octets[:16], decoded=repr(tuple(obj2.value))))
            return
        if kind == R.ENUM and isinstance(v, str) and isinstance(obj2.value, str) and obj2.value != v:
            # two names of one enumeration share a number: the name does not survive
            run.violation("enumeration-name-decodes-to-another-name", dict(wit, octets=octets[:16], decoded=obj2.value))
            return
        # generic dispatch by application tag number
        obj3 = t2.app_to_object()
        base = Tag._app_tag_class[kind]
        m3 = norm_value(base, obj3.value)
        mb = norm_value(base, base(obj.value).value) if kind not in (R.ENUM, R.OBJID) else m
        if kind not in (R.ENUM, R.OBJID, R.BITS) and not same(kind, m3, mb):
            run.violation("app_to_object-differs/kind%d" % kind, dict(wit, decoded=repr(m3)[:200]))
            return
        if kind == R.BITS and m3 != m:
            run.violation("app_to_object-differs/kind%d" % kind, dict(wit, decoded=repr(m3)[:200]))
            return
    except Exception as err:
        run.violation("decode-raised/app/kind%d/%s" % (kind, type(err).__name__), dict(wit, octets=octets[:40], error=repr(err)[:200]))
        return

    # context form, each requested context number
    for n in ctx_numbers:
        run.case((sig, "ctx", n))
        wn = dict(wit, context=n)
        try:
            ctag = tag.app_to_context(n)
            pdu = PDUData()
            ctag.encode(pdu)
            coct = bytes(pdu.pduData)
        except Exception as err:
            run.violation("context-encode-raised/kind%d/%s" % (kind, type(err).__name__), dict(wn, error=repr(err)[:200]))
            return
        exp_ctx = R.tlv_encode([(R.CTX, n, len(content), content)])
        run.count("octets_compared")
        if coct != exp_ctx:
            run.violation("context-octets-differ/kind%d" % kind, dict(wn, octets=coct[:40], expected=exp_ctx[:40]))
            return
        try:
            t3, rest = lib_decode_one(coct)
            if rest:
                run.violation("decoder-left-octets/ctx/kind%d" % kind, dict(wn, octets=coct[:40]))
                return
            t4 = t3.context_to_app(kind)
            m4 = norm_value(cls, cls(t4).value)
            run.count("decodes_compared")
            if not same(kind, m4, m):
                run.violation("decode-differs/ctx/kind%d" % kind, dict(wn, octets=coct[:40], decoded=repr(m4)[:200]))
                return
        except Exception as err:
            run.violation("decode-raised/ctx/kind%d/%s" % (kind, type(err).__name__), dict(wn, octets=coct[:40], error=repr(err)[:200]))
            return
