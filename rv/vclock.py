"""
Virtual clock over the *real* scheduler (DESIGN.md 1.1).

Only `bacpypes.task._time` is replaced (what TaskManager.get_time() and
get_next_task() read).  Heap ordering, "is it due", deferred draining and the
exception handling of core.run_once / core.run stay the library's.
"""

import gc
import logging
import itertools

from . import common

common.bootstrap()

import bacpypes.task as _task
import bacpypes.core as _core
import bacpypes.comm as _comm


class _FakeTrigger:
    """stands in for the wake-up pipe (no syscalls); same interface"""

    def __init__(self):
        self.flag = False

    def set(self):
        self.flag = True

    def isSet(self):
        return self.flag

    def clear(self):
        self.flag = False


class _SwallowRecorder(logging.Handler):
    """the library reports swallowed exceptions through logger.exception();
    this handler is where the harness sees them"""

    def __init__(self):
        logging.Handler.__init__(self, level=logging.WARNING)
        self.records = []

    def emit(self, record):
        et = None
        origin = None
        if record.exc_info and record.exc_info[0] is not None:
            et = record.exc_info[0].__name__
            tb = record.exc_info[2]
            last = None
            while tb is not None:
                last = tb
                tb = tb.tb_next
            if last is not None:
                code = last.tb_frame.f_code
                origin = "%s:%s:%d" % (code.co_filename.rsplit("/", 1)[-1], code.co_name, last.tb_lineno)
        try:
            msg = record.getMessage()
        except Exception:
            msg = str(record.msg)
        self.records.append({"logger": record.name, "level": record.levelname, "exc": et,
                             "origin": origin, "msg": msg[:200]})


class StepBudgetExceeded(Exception):
    pass


class VClock:
    START = 1000000.0

    def __init__(self):
        self.now = self.START
        self.tick = 0.0
        self.installed = False
        self.swallowed = _SwallowRecorder()
        self.steps = 0

    def time(self):
        # tick: a clock that moves while the code runs - every reading takes this long (0: time stands still between tasks)
        t = self.now
        if self.tick:
            self.now = t + self.tick
        return t

    def install(self):
        if self.installed:
            return self
        _task._time = self.time
        tm = _task.TaskManager()
        tm.trigger = _FakeTrigger()
        _core.taskManager = tm
        self.tm = tm
        lg = logging.getLogger("bacpypes")
        lg.setLevel(logging.WARNING)
        lg.propagate = False
        lg.handlers[:] = [self.swallowed]
        self.installed = True
        return self

    # ------------------------------------------------------------------
    def reset(self, start=None):
        """forget everything scheduled / bound; returns what was left over"""
        leftover = {"tasks": len(self.tm.tasks), "deferred": len(_core.deferredFns)}
        self.tm.tasks[:] = []
        self.tm.counter = itertools.count()
        del _task._unscheduled_tasks[:]
        _core.deferredFns = []
        for m in (_comm.client_map, _comm.server_map, _comm.service_map, _comm.element_map):
            m.clear()
        self.swallowed.records = []
        self.now = self.START if start is None else start
        self.steps = 0
        self.settle_extra = 0.0
        self.tick = 0.0
        return leftover

    # ------------------------------------------------------------------
    def idle(self):
        return not _core.deferredFns and not self.tm.tasks

    def next_due(self):
        return self.tm.tasks[0][0] if self.tm.tasks else None

    def drive(self, until=None, duration=None, max_steps=200000):
        """run the real loop body until virtual time `until` (absolute) or for
        `duration`; time only ever jumps to the next due instant."""
        if duration is not None:
            until = self.now + duration
        while True:
            self.steps += 1
            if self.steps > max_steps:
                raise StepBudgetExceeded("driver step budget %d exceeded at t=%r" % (max_steps, self.now))
            _core.run_once()
            if _core.deferredFns:
                continue
            nd = self.next_due()
            if nd is not None and nd <= self.now:
                continue
            if nd is None or (until is not None and nd > until):
                break
            self.now = nd
        if until is not None and until > self.now:
            self.now = until
        return self.now

    def settle(self, max_steps=200000):
        """run everything that is due *now* (no time advance)"""
        n = 0
        while True:
            n += 1
            if n > max_steps:
                raise StepBudgetExceeded("settle budget exceeded")
            _core.run_once()
            if _core.deferredFns:
                continue
            nd = self.next_due()
            if nd is not None and nd <= self.now:
                continue
            break
        extra = getattr(self, "settle_extra", 0.0)
        if extra:
            # a wire with latency: 'settled' means the exchanges started now have had the time to finish
            self.settle_extra = 0.0
            try:
                self.drive(duration=extra, max_steps=max_steps)
                self.settle(max_steps)
            finally:
                self.settle_extra = extra

    def run_until_idle(self, horizon, max_steps=200000):
        """drive until nothing is scheduled or horizon seconds passed;
        returns True if idle was reached"""
        end = self.now + horizon
        while True:
            self.drive(until=min(end, self.next_due() if self.next_due() is not None else end), max_steps=max_steps)
            if self.idle():
                return True
            if self.now >= end:
                return self.idle()


CLOCK = VClock()
CLOCK.install()


def clock():
    return CLOCK.install()


def census(*classes):
    """live instances of the given classes (name independent residue check)"""
    gc.collect()
    return [o for o in gc.get_objects() if isinstance(o, classes)]
