"""
Independent wire codecs written from ASHRAE 135 clauses 6.2 (NPCI), 20.1 (APCI)
and Annex J (BVLC).  No bacpypes code is used.  They are the oracle for
C07/C08/C09 and the sniffer used by every stack-level monitor.
"""

import struct


class Malformed(Exception):
    pass


# ----------------------------------------------------------------------
# NPCI (6.2)
# ----------------------------------------------------------------------

def npci_build(f):
    """f: dict(version=1, net_message=None|int, vendor=None|int, dnet=None|int, dadr=b'', snet=None|int,
    sadr=b'', hop=None|int, der=bool, prio=0..3, payload=b'')"""
    out = bytearray([f.get("version", 1)])
    ctl = 0
    if f.get("net_message") is not None:
        ctl |= 0x80
    if f.get("dnet") is not None:
        ctl |= 0x20
    if f.get("snet") is not None:
        ctl |= 0x08
    if f.get("der"):
        ctl |= 0x04
    ctl |= f.get("prio", 0) & 3
    out.append(ctl)
    if f.get("dnet") is not None:
        out += struct.pack(">H", f["dnet"])
        out.append(len(f.get("dadr", b"")))
        out += f.get("dadr", b"")
    if f.get("snet") is not None:
        out += struct.pack(">H", f["snet"])
        out.append(len(f["sadr"]))
        out += f["sadr"]
    if f.get("dnet") is not None:
        out.append(f["hop"])
    if f.get("net_message") is not None:
        out.append(f["net_message"])
        if f["net_message"] >= 0x80:
            out += struct.pack(">H", f["vendor"])
    out += f.get("payload", b"")
    return bytes(out)


def npci_parse(octets):
    o = bytes(octets)
    n = len(o)
    if n < 2:
        raise Malformed("short")
    if o[0] != 1:
        raise Malformed("version %d" % o[0])
    ctl = o[1]
    f = {"version": 1, "control": ctl, "der": bool(ctl & 4), "prio": ctl & 3,
         "dnet": None, "dadr": b"", "snet": None, "sadr": b"", "hop": None,
         "net_message": None, "vendor": None}
    i = 2

    def need(k):
        if i + k > n:
            raise Malformed("truncated")
    if ctl & 0x20:
        need(3)
        f["dnet"] = struct.unpack(">H", o[i:i + 2])[0]
        dlen = o[i + 2]
        i += 3
        need(dlen)
        f["dadr"] = o[i:i + dlen]
        i += dlen
    if ctl & 0x08:
        need(3)
        f["snet"] = struct.unpack(">H", o[i:i + 2])[0]
        slen = o[i + 2]
        i += 3
        need(slen)
        f["sadr"] = o[i:i + slen]
        i += slen
        if f["snet"] == 0xFFFF:
            raise Malformed("SNET is broadcast")
        if slen == 0:
            raise Malformed("SLEN is zero")
    if ctl & 0x20:
        need(1)
        f["hop"] = o[i]
        i += 1
    if ctl & 0x80:
        need(1)
        f["net_message"] = o[i]
        i += 1
        if f["net_message"] >= 0x80:
            need(2)
            f["vendor"] = struct.unpack(">H", o[i:i + 2])[0]
            i += 2
    f["payload"] = o[i:]
    return f


# network layer message bodies (6.4)
def nlm_build(mtype, p):
    if mtype == 0x00:       # Who-Is-Router-To-Network
        return b"" if p.get("net") is None else struct.pack(">H", p["net"])
    if mtype in (0x01, 0x04, 0x05):
        return b"".join(struct.pack(">H", x) for x in p["nets"])
    if mtype == 0x02:
        return struct.pack(">HB", p["net"], p["perf"])
    if mtype == 0x03:
        return struct.pack(">BH", p["reason"], p["net"])
    if mtype in (0x06, 0x07):
        out = bytearray([len(p["table"])])
        for dnet, port, info in p["table"]:
            out += struct.pack(">HBB", dnet, port, len(info)) + info
        return bytes(out)
    if mtype == 0x08:
        return struct.pack(">HB", p["net"], p["time"])
    if mtype == 0x09:
        return struct.pack(">H", p["net"])
    if mtype == 0x12:
        return b""
    if mtype == 0x13:
        return struct.pack(">HB", p["net"], p["flag"])
    raise ValueError(mtype)


class NLMalformed(Exception):
    pass


def nlm_parse(mtype, body):
    """parameters of a network layer message body per 6.4; NLMalformed when it is cut short"""
    body = bytes(body)

    def need(n, at=0):
        if len(body) < at + n:
            raise NLMalformed("cut short")

    if mtype == 0x00:
        if len(body) == 0:
            return {"net": None}
        need(2)
        return {"net": struct.unpack(">H", body[:2])[0]}
    if mtype in (0x01, 0x04, 0x05):
        if len(body) % 2:
            raise NLMalformed("half a network number")
        return {"nets": [struct.unpack(">H", body[i:i + 2])[0] for i in range(0, len(body), 2)]}
    if mtype in (0x02, 0x08, 0x13):
        need(3)
        a, b_ = struct.unpack(">HB", body[:3])
        return {"net": a, {0x02: "perf", 0x08: "time", 0x13: "flag"}[mtype]: b_}
    if mtype == 0x03:
        need(3)
        r, n = struct.unpack(">BH", body[:3])
        return {"reason": r, "net": n}
    if mtype in (0x06, 0x07):
        need(1)
        table = []
        i = 1
        for _ in range(body[0]):
            need(4, i)
            dnet, port, ln = struct.unpack(">HBB", body[i:i + 4])
            i += 4
            need(ln, i)
            table.append((dnet, port, body[i:i + ln]))
            i += ln
        return {"table": table}
    if mtype == 0x09:
        need(2)
        return {"net": struct.unpack(">H", body[:2])[0]}
    if mtype == 0x12:
        return {}
    raise ValueError(mtype)


# ----------------------------------------------------------------------
# APCI (20.1)
# ----------------------------------------------------------------------

CONFIRMED, UNCONFIRMED, SIMPLE_ACK, COMPLEX_ACK, SEGMENT_ACK, ERROR, REJECT, ABORT = range(8)


def apci_build(f):
    t = f["type"]
    p = f.get("payload", b"")
    if t == CONFIRMED:
        o0 = (0 << 4) | (8 if f.get("seg") else 0) | (4 if f.get("mor") else 0) | (2 if f.get("sa") else 0)
        out = bytearray([o0, ((f["max_segs"] & 7) << 4) | (f["max_resp"] & 15), f["invoke"]])
        if f.get("seg"):
            out += bytes([f["seq"], f["win"]])
        out.append(f["service"])
        return bytes(out) + p
    if t == UNCONFIRMED:
        return bytes([0x10, f["service"]]) + p
    if t == SIMPLE_ACK:
        return bytes([0x20, f["invoke"], f["service"]]) + p
    if t == COMPLEX_ACK:
        out = bytearray([0x30 | (8 if f.get("seg") else 0) | (4 if f.get("mor") else 0), f["invoke"]])
        if f.get("seg"):
            out += bytes([f["seq"], f["win"]])
        out.append(f["service"])
        return bytes(out) + p
    if t == SEGMENT_ACK:
        return bytes([0x40 | (2 if f.get("nak") else 0) | (1 if f.get("srv") else 0), f["invoke"], f["seq"], f["win"]]) + p
    if t == ERROR:
        return bytes([0x50, f["invoke"], f["service"]]) + p
    if t == REJECT:
        return bytes([0x60, f["invoke"], f["reason"]]) + p
    if t == ABORT:
        return bytes([0x70 | (1 if f.get("srv") else 0), f["invoke"], f["reason"]]) + p
    raise ValueError(t)


def apci_parse(octets):
    o = bytes(octets)
    if not o:
        raise Malformed("empty")
    t = o[0] >> 4
    f = {"type": t}
    i = 1

    def take():
        nonlocal i
        if i >= len(o):
            raise Malformed("truncated")
        v = o[i]
        i += 1
        return v
    if t == CONFIRMED:
        f.update(seg=bool(o[0] & 8), mor=bool(o[0] & 4), sa=bool(o[0] & 2))
        b = take()
        f.update(max_segs=(b >> 4) & 7, max_resp=b & 15, invoke=take())
        if f["seg"]:
            f.update(seq=take(), win=take())
        f["service"] = take()
    elif t == UNCONFIRMED:
        f["service"] = take()
    elif t == SIMPLE_ACK:
        f.update(invoke=take(), service=take())
    elif t == COMPLEX_ACK:
        f.update(seg=bool(o[0] & 8), mor=bool(o[0] & 4), invoke=take())
        if f["seg"]:
            f.update(seq=take(), win=take())
        f["service"] = take()
    elif t == SEGMENT_ACK:
        f.update(nak=bool(o[0] & 2), srv=bool(o[0] & 1), invoke=take(), seq=take(), win=take())
    elif t == ERROR:
        f.update(invoke=take(), service=take())
    elif t == REJECT:
        f.update(invoke=take(), reason=take())
    elif t == ABORT:
        f.update(srv=bool(o[0] & 1), invoke=take(), reason=take())
    else:
        raise Malformed("PDU type %d" % t)
    f["payload"] = o[i:]
    f["header_len"] = i
    return f


MAX_SEGMENTS = {0: None, 1: 2, 2: 4, 3: 8, 4: 16, 5: 32, 6: 64, 7: None}     # 20.1.2.4 (0 unspecified, 7 more than 64)
MAX_APDU = {0: 50, 1: 128, 2: 206, 3: 480, 4: 1024, 5: 1476}                  # 20.1.2.5 (6..15 reserved)


# ----------------------------------------------------------------------
# BVLC (Annex J.2)
# ----------------------------------------------------------------------

def ip6(addr, port):
    return bytes(int(x) for x in addr.split(".")) + struct.pack(">H", port)


def un_ip6(b):
    return (".".join(str(x) for x in b[:4]), struct.unpack(">H", b[4:6])[0])


def bvlc_build(func, body):
    return bytes([0x81, func]) + struct.pack(">H", 4 + len(body)) + body


def bvlc_body(func, p):
    if func == 0x00:
        return struct.pack(">H", p["code"])
    if func in (0x01, 0x03):
        return b"".join(ip6(a, pt) + struct.pack(">L", m) for a, pt, m in p["bdt"])
    if func in (0x02, 0x06):
        return b""
    if func == 0x04:
        return ip6(*p["addr"]) + p["npdu"]
    if func == 0x05:
        return struct.pack(">H", p["ttl"])
    if func == 0x07:
        return b"".join(ip6(a, pt) + struct.pack(">HH", ttl, rem) for a, pt, ttl, rem in p["fdt"])
    if func == 0x08:
        return ip6(*p["addr"])
    if func in (0x09, 0x0A, 0x0B):
        return p["npdu"]
    raise ValueError(func)


def bvlc_parse(octets):
    o = bytes(octets)
    if len(o) < 4:
        raise Malformed("short")
    if o[0] != 0x81:
        raise Malformed("type 0x%02x" % o[0])
    func = o[1]
    ln = struct.unpack(">H", o[2:4])[0]
    if ln != len(o):
        raise Malformed("length field %d, datagram %d" % (ln, len(o)))
    body = o[4:]
    p = {"func": func, "length": ln, "body": body}
    if func == 0x00:
        if len(body) != 2:
            raise Malformed("result body")
        p["code"] = struct.unpack(">H", body)[0]
    elif func in (0x01, 0x03):
        if len(body) % 10:
            raise Malformed("table body")
        p["bdt"] = [un_ip6(body[i:i + 6]) + (struct.unpack(">L", body[i + 6:i + 10])[0],) for i in range(0, len(body), 10)]
    elif func in (0x02, 0x06):
        pass
    elif func == 0x04:
        if len(body) < 6:
            raise Malformed("forwarded body")
        p["addr"] = un_ip6(body[:6])
        p["npdu"] = body[6:]
    elif func == 0x05:
        if len(body) != 2:
            raise Malformed("register body")
        p["ttl"] = struct.unpack(">H", body)[0]
    elif func == 0x07:
        if len(body) % 10:
            raise Malformed("table body")
        p["fdt"] = [un_ip6(body[i:i + 6]) + struct.unpack(">HH", body[i + 6:i + 10]) for i in range(0, len(body), 10)]
    elif func == 0x08:
        if len(body) != 6:
            raise Malformed("delete body")
        p["addr"] = un_ip6(body)
    elif func in (0x09, 0x0A, 0x0B):
        p["npdu"] = body
    else:
        raise Malformed("function 0x%02x" % func)
    return p
