"""Runtime-verification harness for bacpypes (see /verif/DESIGN.md)."""
