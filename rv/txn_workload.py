"""
Scenario workloads shared by C04 and C05 (DESIGN.md 3 C04/C05): configurations,
fault-free trace, every single fault on every frame, fault pairs, random fault
plans, silence from frame k on.
"""

import itertools

from .txn import Cfg, run_scenario, check_c04, check_payloads, check_wire, outcomes_of, expected_outcome, STATE_SEEN
from .fnet import Plan, DROP, DUP, DELAY, HOLD, DUPLATE
from .stacks import size_for_encoded, enc_len
from .vclock import CLOCK

SEGS = ["noSegmentation", "segmentedTransmit", "segmentedReceive", "segmentedBoth"]


def boundary_sizes(L, token=1001, ack=False):
    """payload sizes whose encoded service part sits at 0, 1, L-1, L, L+1, 2L-1, 2L, 2L+1, 4L+2 octets"""
    out = []
    for target in (L - 1, L, L + 1, 2 * L - 1, 2 * L, 2 * L + 1, 3 * L, 4 * L + 2):
        s = size_for_encoded(target, token, ack)
        if s is not None:
            out.append(s)
    return sorted(set([0, 1] + out))


def configurations(rng, tier):
    """yield (label, Cfg).  quick: a covering selection; thorough: much wider"""
    thorough = tier == "thorough"
    # 1. behaviours on small messages, both submission paths
    for path in ("direct", "iocb"):
        for beh in ("ack", "error", "reject", "abort", "silent"):
            yield "behaviour", Cfg(behaviour=beh, path=path, retries=rng.choice([0, 1, 2]))
        for beh in ("simple", "raise-error", "raise-reject", "raise-abort"):
            yield "behaviour", Cfg(behaviour=beh, path=path, service="wp", retries=1)
        yield "behaviour", Cfg(behaviour="ack", think=1.0, path=path)
        yield "behaviour", Cfg(behaviour="ack", think=4.0, path=path, retries=1)      # slower than the request timeout
    # 1b. several requests to the same peer submitted at the same instant (IOCB queue per address / concurrent direct requests)
    behs = ["ack", "error", "reject", "abort", "silent"]
    for path in ("iocb", "direct"):
        for first in behs:
            for second in (behs if thorough else ["ack", rng.choice(behs[1:])]):
                extra = [(second, "cpt", rng.choice([5, 300]), rng.choice([5, 300]))]
                if rng.random() < 0.4:
                    extra.append((rng.choice(behs), "cpt", 5, 5))
                yield "queued-requests", Cfg(behaviour=first, path=path, retries=rng.choice([0, 1]), c_max=206, s_max=206, extra=extra)
    # 1b'. a request that cannot be encoded (a required parameter is missing), alone and with others queued behind it: the
    #      application is told (an exception at submission, or the IOCB ends with the error) and the others proceed
    for path in ("direct", "iocb"):
        for nq in (0, 1, 2):
            yield "unencodable-request", Cfg(service="unencodable", path=path, retries=0, c_max=206, s_max=206,
                                             extra=[(rng.choice(behs[:4]), "cpt", 5, 5) for _ in range(nq)])
    # 1b+. a requesting device whose own limits cannot be stated in a request header (it accepts one segment: the header has no
    #      code for that): every request fails on its way out, after the transaction has been set up
    for path in ("direct", "iocb"):
        for nq in (0, 1):
            yield "requester-limits-cannot-be-encoded", Cfg(c_maxsegs=1, path=path, retries=rng.choice([0, 1, 3]), c_max=206, s_max=206,
                                                            extra=[("ack", "cpt", 5, 5)] * nq)
    # 1b". the requesting device itself has been told to be quiet (DeviceCommunicationControl): what its application submits
    #      meanwhile cannot go out - and still ends with one outcome
    for path in ("direct", "iocb"):
        for state in ("disable", "disableInitiation"):
            for nq in (0, 1):
                yield "requester-communication-disabled", Cfg(client_dcc=state, path=path, retries=0, c_max=206, s_max=206,
                                                              extra=[("ack", "cpt", 5, 5)] * nq)
    # 1c. IOCB queue: follow-up requests submitted when the first completes (from its callback, directly or through
    #     deferred()), with other requests already queued behind it; queued requests that are aborted locally the moment they
    #     start (too long for a peer without segmentation) with more behind them
    for first in (behs if thorough else ["ack", "error", "silent"]):
        for how in ("deferred", "direct"):
            for nq in (0, 1, 2):
                extra = [(rng.choice(behs[:4]), "cpt", 5, 5) for _ in range(nq)]
                fol = [(how, rng.choice(behs[:4]), 5, 5) for _ in range(rng.choice([1, 1, 2]))]
                yield "queued-requests", Cfg(behaviour=first, path="iocb", retries=0, c_max=206, s_max=206, extra=extra, followups=fol)
    for npos in range(0, 3):
        for nbehind in (1, 2, 3):
            extra = [("ack", "cpt", 5, 5)] * npos + [("ack", "cpt", 400, 5)] + [(rng.choice(["ack", "error"]), "cpt", 5, 5)] * nbehind
            yield "queued-requests", Cfg(behaviour="ack", path="iocb", retries=0, c_max=206, s_max=50, s_seg="noSegmentation", iam=True, extra=extra)
    # 1d. timers of other kinds in the scheduler between the transactions' own (an answered request, a long unrelated timer, a
    #     request that is never answered): every outcome still within its bound
    for path in ("direct", "iocb"):
        for think in (0.5, 1.0):
            for bg in ([60.0], [30.0, 200.0], [0.7, 90.0]):
                for second in ("silent", "ack", "abort"):
                    yield "mixed-timers", Cfg(behaviour="ack", think=think, path=path, retries=rng.choice([0, 1, 3]), c_max=206, s_max=206,
                                              background=bg, extra=[(second, "cpt", 5, 5)] + ([("silent", "cpt", 5, 5)] if rng.random() < 0.3 else []))
    # 2. segmentation boundaries for each max-APDU size
    for L in ([50, 128, 206, 480, 1024, 1476] if thorough else [50, 206, 480]):
        req_sizes = boundary_sizes(L)
        rsp_sizes = boundary_sizes(L, ack=True)
        pick_req = req_sizes if thorough else [req_sizes[i] for i in (0, 2, 3, 4, len(req_sizes) - 1) if i < len(req_sizes)]
        pick_rsp = rsp_sizes if thorough else [rsp_sizes[i] for i in (0, 3, 4, len(rsp_sizes) - 1) if i < len(rsp_sizes)]
        for rs in pick_req:
            yield "request-boundary", Cfg(c_max=L, s_max=L, req_size=rs, rsp_size=5, c_win=rng.randrange(1, 9), s_win=rng.randrange(1, 9),
                                          retries=rng.randrange(0, 4), path=rng.choice(["direct", "iocb"]))
        for rs in pick_rsp:
            yield "response-boundary", Cfg(c_max=L, s_max=L, req_size=5, rsp_size=rs, c_win=rng.randrange(1, 9), s_win=rng.randrange(1, 9),
                                           retries=rng.randrange(0, 4), path=rng.choice(["direct", "iocb"]))
        yield "both-segmented", Cfg(c_max=L, s_max=L, req_size=pick_req[-1], rsp_size=pick_rsp[-1], c_win=rng.randrange(1, 9),
                                    s_win=rng.randrange(1, 9), retries=rng.randrange(1, 4))
    # 3. all sixteen segmentation-support pairs with messages that need segmentation in one or both directions
    for cs, ss in itertools.product(SEGS, SEGS):
        for (rq, rp) in (((700, 5), (5, 700), (700, 700)) if thorough else ((700, 700),)):
            yield "segmentation-support", Cfg(c_seg=cs, s_seg=ss, c_max=206, s_max=206, req_size=rq, rsp_size=rp, retries=1,
                                              c_maxsegs=rng.choice([2, 4, 16, 64]), s_maxsegs=rng.choice([2, 4, 16, 64]))
    # 4. windows 1..8 on each side
    for cw, sw in (itertools.product(range(1, 9), repeat=2) if thorough else [(1, 1), (1, 8), (8, 1), (3, 5), (8, 8), (2, 2)]):
        yield "windows", Cfg(c_max=128, s_max=128, req_size=900, rsp_size=900, c_win=cw, s_win=sw, retries=2)
    # 5. different capabilities on the two sides
    for cm, sm in ([(50, 1476), (1476, 50), (128, 480), (480, 128)] if not thorough else itertools.permutations([50, 128, 206, 480, 1024, 1476], 2)):
        yield "asymmetric", Cfg(c_max=cm, s_max=sm, req_size=rng.choice([5, 300, 2000]), rsp_size=rng.choice([5, 300, 2000]), retries=1,
                                iam=rng.random() < 0.5)


def single_faults(cfg, nframes):
    for k in range(nframes):
        yield Plan({k: (DROP,)})
        yield Plan({k: (DUP,)})
        yield Plan({k: (DELAY, 0.5 * cfg.t_seg)})
        yield Plan({k: (DELAY, 1.5 * cfg.t_out)})
        yield Plan({k: (HOLD,)})
        # a duplicate that arrives late: within the exchange, and after it is over
        yield Plan({k: (DUPLATE, 0.5 * cfg.t_seg)})
        yield Plan({k: (DUPLATE, 1.5 * cfg.t_out + cfg.think)})


def latency_single_faults(cfg, nframes, rng, frames=None):
    """a wire with latency (constant, or jittering per frame) and one lost / duplicated frame: with latency a retransmission is
    not faster than the original was, so timers that only work on a zero-delay medium show"""
    for k in (frames if frames is not None else range(nframes)):
        for kind in ("constant", "jitter"):
            if kind == "constant":
                lat = 1.0 / 128
            else:
                r2 = rng.__class__(rng.getrandbits(32))
                table = [0.005 + 0.010 * r2.random() for _ in range(64)]

                def lat(n, table=table):
                    return table[n % len(table)]
                lat.__name__ = "jitter-5-15ms"
            yield Plan({k: (DROP,)}, latency=lat, latency_budget=0.02 * (nframes + 40))
        if rng.random() < 0.3:
            yield Plan({k: (DUP,)}, latency=1.0 / 128, latency_budget=0.02 * (nframes + 40))


def fault_pairs(cfg, nframes, rng, complete):
    acts = [(DROP,), (DUP,), (DELAY, 0.5 * cfg.t_seg), (HOLD,)]
    pairs = list(itertools.combinations(range(nframes + 2), 2))
    if not complete:
        pairs = rng.sample(pairs, min(len(pairs), 12))
    for a, b in pairs:
        for x, y in (itertools.product(acts, repeat=2) if complete else [(rng.choice(acts), rng.choice(acts))]):
            yield Plan({a: x, b: y})


def random_plans(cfg, nframes, rng, n):
    for _ in range(n):
        p = rng.choice([0.05, 0.1, 0.2, 0.4, 0.6])
        r2 = rng.__class__(rng.getrandbits(64))
        kinds = [(DROP,), (DROP,), (DUP,), (DELAY, 0.3 * cfg.t_seg), (DELAY, 1.2 * cfg.t_seg), (DELAY, 1.1 * cfg.t_out), (HOLD,)]

        def fn(n_, rec, p=p, r2=r2, kinds=kinds):
            if n_ > 4000:
                return None         # let very long runs finish
            return r2.choice(kinds) if r2.random() < p else None
        fn.__name__ = "random(p=%s)" % p
        yield Plan(fn=fn)
    # silence from frame k on
    for k in range(0, nframes + 1, max(1, nframes // 6)):
        def silent(n_, rec, k=k):
            return (DROP,) if n_ >= k else None
        silent.__name__ = "silence-from-%d" % k
        yield Plan(fn=silent)
    # one direction dead from frame k on
    for k in (0, 1, max(1, nframes // 2)):
        for src in ("1", "2"):
            def oneway(n_, rec, k=k, src=src):
                return (DROP,) if n_ >= k and str(rec["src"]) == src else None
            oneway.__name__ = "station-%s-mute-from-%d" % (src, k)
            yield Plan(fn=oneway)


def describe_plan(plan):
    d = plan.describe()
    d["applied"] = [list(a) for a in plan.applied[:12]]
    return d
