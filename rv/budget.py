"""
Step budgets for "terminates / never loops" clauses (DESIGN.md 1.5).

sys.monitoring LINE events are enabled with set_local_events on the code
objects of the decoder loops only; a callback counts executed lines and
raises StepBudgetExceeded beyond the limit armed for the current call.
"""

import sys


class StepBudgetExceeded(Exception):
    pass


class LineBudget:
    TOOL = 4

    def __init__(self, functions):
        self.mon = getattr(sys, "monitoring", None)
        self.count = 0
        self.limit = None
        self.total = 0
        self.active = False
        if self.mon is None:
            return
        try:
            self.mon.use_tool_id(self.TOOL, "rv-budget")
        except ValueError:
            pass
        self.mon.register_callback(self.TOOL, self.mon.events.LINE, self._line)
        self.codes = []
        for fn in functions:
            code = getattr(fn, "__code__", None)
            if code is None:
                continue
            self.mon.set_local_events(self.TOOL, code, self.mon.events.LINE)
            self.codes.append(code)
        self.active = bool(self.codes)

    def _line(self, code, line):
        self.count += 1
        if self.limit is not None and self.count > self.limit:
            lim = self.limit
            self.limit = None
            raise StepBudgetExceeded("more than %d loop lines executed" % lim)

    def arm(self, limit):
        self.total += self.count
        self.count = 0
        self.limit = limit

    def disarm(self):
        self.limit = None
        self.total += self.count
        n = self.count
        self.count = 0
        return n

    def close(self):
        if self.mon is None:
            return
        for code in self.codes:
            self.mon.set_local_events(self.TOOL, code, 0)
        self.mon.register_callback(self.TOOL, self.mon.events.LINE, None)
        try:
            self.mon.free_tool_id(self.TOOL)
        except Exception:
            pass
