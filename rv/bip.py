"""
BACnet/IP stack builders over the library's virtual IP network (vlan.IPNetwork /
IPRouter / IPNode): the real BIPSimple / BIPForeign / BIPBBMD and AnnexJCodec,
with the UDP multiplexer replaced by a small address adapter (same conversions,
no sockets).  A recording user sits above the B/IP layer.
"""

from . import common

common.bootstrap()

from .vclock import CLOCK

from bacpypes.comm import Client, Server, bind
from bacpypes.pdu import Address, LocalBroadcast, PDU, unpack_ip_addr
from bacpypes.vlan import IPNetwork, IPNode, IPRouter
from bacpypes.bvllservice import BIPSimple, BIPForeign, BIPBBMD, AnnexJCodec


class LoggedIPNetwork(IPNetwork):
    """IPNetwork that records every datagram (the library's traffic_log hook is used)"""

    def __init__(self, name):
        IPNetwork.__init__(self, name)
        self.frames = []
        self.traffic_log = self._log

    def _log(self, name, pdu):
        self.frames.append({"t": CLOCK.now, "lan": name, "src": pdu.pduSource, "dst": pdu.pduDestination, "octets": bytes(pdu.pduData)})


class Mux(Client, Server):
    """what UDPMultiplexer does to addresses, without sockets"""

    def __init__(self, addr, network):
        Client.__init__(self)
        Server.__init__(self)
        self.address = addr
        self.unicast_tuple = addr.addrTuple
        self.broadcast_tuple = addr.addrBroadcastTuple
        self.node = IPNode(addr, network)
        bind(self, self.node)

    def indication(self, pdu):
        if pdu.pduDestination.addrType == Address.localBroadcastAddr:
            dest = self.broadcast_tuple
        elif pdu.pduDestination.addrType == Address.localStationAddr:
            dest = unpack_ip_addr(pdu.pduDestination.addrAddr)
        else:
            raise RuntimeError("invalid destination address type")
        self.request(PDU(pdu, source=self.unicast_tuple, destination=dest))

    def confirmation(self, pdu):
        if getattr(self, "drop_results", 0) and bytes(pdu.pduData)[:2] == b"\x81\x00":
            self.drop_results -= 1          # fault injection: a BVLC-Result addressed to this node is lost on its last leg
            return
        src = Address(pdu.pduSource)
        if pdu.pduDestination == self.broadcast_tuple:
            dest = LocalBroadcast()
        else:
            dest = Address(pdu.pduDestination)
        self.response(PDU(pdu, source=src, destination=dest))


class BIPUser(Client):
    """the network layer's place: records every PDU delivered above the B/IP layer"""

    def __init__(self, name, log):
        Client.__init__(self)
        self.name = name
        self.log = log

    def confirmation(self, pdu):
        self.log.append({"at": self.name, "t": CLOCK.now, "token": bytes(pdu.pduData).decode("ascii", "replace"),
                         "src": pdu.pduSource, "dst": pdu.pduDestination})
        # the real network layer decodes the PDU it is handed in place (NPDU.decode takes the octets out one by one): so does
        # this stand-in, what the B/IP layer does with the message afterwards must not depend on it
        if isinstance(pdu.pduData, bytearray):
            del pdu.pduData[:]

    def broadcast(self, token):
        self.request(PDU(token.encode("ascii"), destination=LocalBroadcast()))

    def unicast(self, dest, token):
        self.request(PDU(token.encode("ascii"), destination=dest))


class BIPNode:
    def __init__(self, kind, name, addr, network, log, bbmd=None, ttl=None):
        self.kind = kind
        self.name = name
        self.address = Address(addr)
        self.user = BIPUser(name, log)
        if kind == "simple":
            self.bip = BIPSimple()
        elif kind == "bbmd":
            self.bip = BIPBBMD(self.address)
        elif kind == "foreign":
            self.bip = BIPForeign(Address(bbmd), ttl)
        else:
            raise ValueError(kind)
        self.annexj = AnnexJCodec()
        self.mux = Mux(self.address, network)
        bind(self.user, self.bip, self.annexj, self.mux)


def internetwork(subnets):
    """subnets: list of third octets k -> {k: LoggedIPNetwork}, joined by one IPRouter (192.168.k.1)"""
    router = IPRouter()
    nets = {}
    for k in subnets:
        lan = LoggedIPNetwork("ip%d" % k)
        router.add_network(Address("192.168.%d.1/24" % k), lan)
        nets[k] = lan
    return router, nets
