"""
Fault-injecting virtual LAN (DESIGN.md 1.2).

FaultNet subclasses the real bacpypes.vlan.Network and overrides only
process_pdu: every frame is logged and a *fault plan* decides whether it is
delivered, dropped, duplicated, delayed or held back behind the next frame.
Delivery uses the library's own addressing rules; an exception escaping one
receiving stack is recorded and does not stop delivery to the others.
"""

from copy import deepcopy

from . import common

common.bootstrap()

from bacpypes.vlan import Network, Node
from bacpypes.pdu import LocalBroadcast, Address, PDU
from bacpypes.task import FunctionTask, OneShotFunction

from .vclock import CLOCK

DELIVER, DROP, DUP, DELAY, HOLD = "deliver", "drop", "dup", "delay", "hold"
DUPLATE = "duplate"         # delivered now and once more after a delay (a copy that took another path)


class Plan:
    """fault plan: {frame index -> action} and/or a predicate"""

    def __init__(self, table=None, fn=None, latency=None, latency_budget=0.0):
        """latency: seconds every frame spends on the medium (a number, or a function of the frame index); it is a
        property of the wire, not a fault: it is not recorded in `applied`"""
        self.table = dict(table or {})
        self.fn = fn
        self.latency = latency
        self.latency_budget = latency_budget
        self.applied = []

    def decide(self, n, rec):
        act = self.table.get(n)
        if act is None and self.fn is not None:
            act = self.fn(n, rec)
        if act is None:
            if self.latency:
                return (DELAY, self.latency(n) if callable(self.latency) else self.latency, "fifo")
            return (DELIVER,)
        if isinstance(act, str):
            act = (act,)
        self.applied.append((n,) + tuple(act))
        return act

    def describe(self):
        return {"table": {str(k): list(v) if isinstance(v, tuple) else v for k, v in self.table.items()},
                "predicate": getattr(self.fn, "__name__", None) if self.fn else None,
                "latency": (getattr(self.latency, "__name__", "function") if callable(self.latency) else self.latency)}


class FaultNet(Network):

    def __init__(self, name="lan", plan=None):
        Network.__init__(self, name=name, broadcast_address=LocalBroadcast())
        self.frames = []          # every frame that reached the medium
        self.plan = plan or Plan()
        self.escapes = []         # exceptions that escaped a receiving stack
        self.held = []
        self.delivered = 0
        self.frame_cap = 6000     # frame budget: beyond it the medium goes silent and the run is reported as not terminating
        self.overflow = False
        self.last_due = {}

    # ------------------------------------------------------------------
    def process_pdu(self, pdu):
        n = len(self.frames)
        if n >= self.frame_cap:
            self.overflow = True
            return
        rec = {"n": n, "t": CLOCK.now, "lan": self.name, "src": pdu.pduSource, "dst": pdu.pduDestination,
               "octets": bytes(pdu.pduData)}
        self.frames.append(rec)
        act = self.plan.decide(n, rec)
        rec["action"] = act[0]
        kind = act[0]
        if kind == DROP:
            pass
        elif kind == DUP:
            self.deliver(pdu)
            OneShotFunction(self.deliver, pdu)
        elif kind == DUPLATE:
            self.deliver(pdu)
            t = FunctionTask(self.deliver, pdu)
            t.install_task(delta=act[1])
        elif kind == DELAY:
            t = FunctionTask(self.deliver, pdu)
            if len(act) > 2 and act[2] == "fifo":
                # latency of the wire (not a fault): frames of one direction stay in order even when the latency jitters
                key = (str(pdu.pduSource), str(pdu.pduDestination))
                due = max(CLOCK.now + act[1], self.last_due.get(key, 0.0))
                self.last_due[key] = due
                t.install_task(when=due)
            else:
                t.install_task(delta=act[1])
        elif kind == HOLD:
            self.held.append(pdu)
            return
        else:
            self.deliver(pdu)
        if self.held and kind != HOLD:
            held, self.held = self.held, []
            for h in held:
                self.deliver(h)

    def flush_held(self):
        held, self.held = self.held, []
        for h in held:
            self.deliver(h)

    def deliver(self, pdu):
        self.delivered += 1
        if pdu.pduDestination == self.broadcast_address:
            targets = [n for n in self.nodes if pdu.pduSource != n.address]
        else:
            targets = [n for n in self.nodes if n.promiscuous or (pdu.pduDestination == n.address)]
        for node in targets:
            try:
                node.response(deepcopy(pdu))
            except Exception as err:
                tb = err.__traceback__
                last = None
                while tb is not None:
                    last = tb
                    tb = tb.tb_next
                origin = None
                if last is not None:
                    code = last.tb_frame.f_code
                    origin = "%s:%s:%d" % (code.co_filename.rsplit("/", 1)[-1], code.co_name, last.tb_lineno)
                self.escapes.append({"t": CLOCK.now, "node": str(node.address), "exc": type(err).__name__,
                                     "msg": str(err)[:120], "origin": origin, "octets": bytes(pdu.pduData)[:40]})

    # ------------------------------------------------------------------
    def inject(self, src, dst, octets, via_deferred=False):
        """put a raw frame on the medium as if station src had sent it"""
        pdu = PDU(octets, source=src, destination=dst)
        if via_deferred:
            from bacpypes.core import deferred
            deferred(self.process_pdu, pdu)
        else:
            OneShotFunction(self.process_pdu, pdu)
