"""
Attaching monitors to real classes from the harness (no source hooks).

class_invariant(): evaluate a recording condition after (and before) every
public method of a class.  icontract.invariant is the engine when it is
importable; otherwise an equivalent hand-written wrapper is used.  Conditions
*record* (they call the supplied sink) and return True, so a monitor can never
change what the library does.
"""

import functools

from . import common


def _public_methods(cls):
    for name, attr in list(vars(cls).items()):
        if name.startswith("_") or not callable(attr) or isinstance(attr, (staticmethod, classmethod, type)):
            continue
        yield name, attr


def class_invariant(cls, cond, counter):
    """cond(self) -> True (records on failure); counter: dict with key 'n' incremented per evaluation.
    Returns the engine used ('icontract' or 'wrapper')."""
    if getattr(cls, "__rv_invariant__", None):
        cls.__rv_invariant__.append((cond, counter))
        return cls.__rv_engine__

    conds = [(cond, counter)]

    def rv_invariant_holds(self):
        for c, cnt in conds:
            cnt["n"] = cnt.get("n", 0) + 1
            try:
                c(self)
            except Exception as err:           # a monitor must never disturb the library
                cnt["monitor_errors"] = cnt.get("monitor_errors", 0) + 1
                cnt["last_monitor_error"] = repr(err)
        return True

    engine = "wrapper"
    try:
        import icontract

        class _InvariantBroken(Exception):
            pass
        icontract.invariant(rv_invariant_holds, error=_InvariantBroken)(cls)
        engine = "icontract"
    except Exception:
        for name, fn in _public_methods(cls):
            def make(fn):
                @functools.wraps(fn)
                def wrapper(self, *a, **kw):
                    try:
                        return fn(self, *a, **kw)
                    finally:
                        rv_invariant_holds(self)
                return wrapper
            setattr(cls, name, make(fn))
    cls.__rv_invariant__ = conds
    cls.__rv_engine__ = engine
    return engine


def wrap_method(cls, name, before=None, after=None):
    """observe calls of cls.name: before(self, args, kwargs), after(self, args, kwargs, result, exc)"""
    orig = getattr(cls, name)

    @functools.wraps(orig)
    def wrapper(self, *a, **kw):
        if before is not None:
            before(self, a, kw)
        try:
            r = orig(self, *a, **kw)
        except BaseException as exc:
            if after is not None:
                after(self, a, kw, None, exc)
            raise
        if after is not None:
            after(self, a, kw, r, None)
        return r
    wrapper.__rv_orig__ = orig
    setattr(cls, name, wrapper)
    return orig
