"""
Common harness pieces: bootstrap (import the *working tree*), three-valued
verdicts, evidence writer, known findings, replay files, sharding.

Nothing in here looks at bacpypes behaviour; it is book-keeping only.
"""

import os
import sys
import json
import time
import hashlib
import random
import argparse
import subprocess
import traceback

VERIF = os.path.dirname(os.path.dirname(os.path.abspath(__file__)))
REPO = os.environ.get("BACPYPES_REPO", "/repo")
SRC = os.path.join(REPO, "py34")
OUT = os.path.join(VERIF, "out")
EVIDENCE_DIR = os.path.join(VERIF, "evidence")
KNOWN_FILE = os.path.join(VERIF, "known_findings.txt")
GUARD = "BACPYPES_VERIF"

EXIT_HELD, EXIT_VIOLATION, EXIT_INCONCLUSIVE = 0, 1, 2


class Inconclusive(Exception):
    pass


_BOOTED = []


def bootstrap():
    """Make sure bacpypes comes from the working tree, not site-packages."""
    if _BOOTED:
        return _BOOTED[0]
    os.environ.setdefault(GUARD, "1")
    os.environ.setdefault("TZ", "UTC")
    try:
        time.tzset()
    except Exception:
        pass
    if SRC not in sys.path[:1]:
        sys.path.insert(0, SRC)
    deps = os.path.join(VERIF, ".deps")
    if os.path.isdir(deps) and deps not in sys.path:
        sys.path.append(deps)
    import bacpypes
    where = os.path.realpath(bacpypes.__file__)
    if not where.startswith(os.path.realpath(SRC) + os.sep):
        raise Inconclusive("bacpypes imported from %s, not from %s" % (where, SRC))
    # keep the library quiet: swallowed exceptions are observed by a handler,
    # not printed
    import logging
    logging.getLogger("bacpypes").setLevel(logging.CRITICAL + 1)
    root = logging.getLogger()
    if not root.handlers:
        root.addHandler(logging.NullHandler())
    _BOOTED.append(bacpypes)
    return bacpypes


def sig_hash(sig):
    if not isinstance(sig, (bytes, bytearray)):
        sig = repr(sig).encode("utf-8", "backslashreplace")
    return hashlib.blake2b(sig, digest_size=8).digest()


def jsonable(x, depth=0):
    """best-effort conversion of a witness to JSON"""
    if depth > 12:
        return repr(x)
    if x is None or isinstance(x, (bool, int, str)):
        return x
    if isinstance(x, float):
        if x != x or x in (float("inf"), float("-inf")):
            return repr(x)
        return x
    if isinstance(x, (bytes, bytearray)):
        return "hex:" + bytes(x).hex()
    if isinstance(x, dict):
        return {str(k): jsonable(v, depth + 1) for k, v in x.items()}
    if isinstance(x, (list, tuple, set, frozenset)):
        return [jsonable(v, depth + 1) for v in x]
    return repr(x)


def load_known():
    """known_findings.txt ->  {(property, key): description}, fixed list"""
    known, fixed = {}, []
    if not os.path.exists(KNOWN_FILE):
        return known, fixed
    for line in open(KNOWN_FILE):
        line = line.strip()
        if not line or line.startswith("#"):
            continue
        if line.startswith("finding:"):
            body = line[len("finding:"):].strip()
            parts = body.split(None, 2)
            kv = dict(p.split("=", 1) for p in parts[:2] if "=" in p)
            desc = parts[2] if len(parts) > 2 else ""
            if "property" in kv and "key" in kv:
                known[(kv["property"], kv["key"])] = desc
        elif line.startswith("fixed:"):
            fixed.append(line)
    return known, fixed


class Run:
    """One execution of one check: counters, verdict, evidence."""

    def __init__(self, pid, level, rule, design_ref=None, argv=None, assumptions=()):
        ap = argparse.ArgumentParser(prog="check " + pid)
        ap.add_argument("tier", nargs="?", default=os.environ.get("VERIF_TIER", "quick"),
                        choices=["quick", "thorough", "replay"])
        ap.add_argument("path", nargs="?")
        ap.add_argument("--shard", default=None, help="i/n (internal)")
        ap.add_argument("--partial", default=None, help="partial result file (internal)")
        ap.add_argument("--only", default=None, help="comma list of workload names")
        ap.add_argument("--jobs", type=int, default=int(os.environ.get("VERIF_JOBS", "0")) or (os.cpu_count() or 4))
        self.args = ap.parse_args(argv)
        self.pid = pid
        self.level = level
        self.rule = rule
        self.tier = self.args.tier
        self.replay_path = self.args.path
        try:
            self.seed = int(os.environ.get("VERIF_SEED", "0"))
        except ValueError:
            self.seed = 0
        self.shard = (0, 1)
        if self.args.shard:
            i, n = self.args.shard.split("/")
            self.shard = (int(i), int(n))
        self.only = set(self.args.only.split(",")) if self.args.only else None
        self.t0 = time.time()
        self.evaluations = 0
        self.distinct = set()
        self.distinct_bulk = 0
        self.samples = []
        self.sample_keys = set()
        self.counters = {}
        self.sets = {}
        self.violations = {}      # key -> [count, first witness]
        self.known_hits = {}      # key -> [count, first witness]
        self.inconclusive = []
        self.assumptions = list(assumptions)
        self.exhaustive = None
        self.extra = {}
        self.known, self.fixed = load_known()
        self.watchdog_s = None
        self.max_samples = 12

    # ------------------------------------------------------------------
    def rng(self, *salt):
        """deterministic RNG derived from VERIF_SEED, the shard and a salt"""
        h = hashlib.sha256(repr((self.seed, self.shard[0], salt)).encode()).digest()
        return random.Random(int.from_bytes(h[:8], "big"))

    def want(self, name):
        return self.only is None or name in self.only

    def mine(self, index):
        """True when enumeration index belongs to this shard"""
        return index % self.shard[1] == self.shard[0]

    def timed_out(self, budget_s):
        return (time.time() - self.t0) > budget_s

    # ------------------------------------------------------------------
    def case(self, sig, nontrivial=True, sample=None, sample_key=None):
        """count one evaluated case; sig identifies it for distinct counting"""
        self.evaluations += 1
        if nontrivial:
            self.distinct.add(sig_hash(sig))
        if sample is not None:
            self.sample(sample, sample_key)

    def bulk(self, n, distinct=None):
        """n cases of a complete enumeration (distinct by construction: the
        loop index is the case), counted by the loop that ran them"""
        self.evaluations += n
        self.distinct_bulk += n if distinct is None else distinct

    def sample(self, obj, key=None):
        if key is not None:
            if key in self.sample_keys:
                return
            if len(self.sample_keys) >= 40:
                return
            self.sample_keys.add(key)
            self.samples.append(jsonable(obj))
        elif len(self.samples) < self.max_samples:
            self.samples.append(jsonable(obj))

    def count(self, name, n=1):
        self.counters[name] = self.counters.get(name, 0) + n

    def seen(self, name, item):
        self.sets.setdefault(name, set()).add(item)

    def violation(self, key, witness):
        """record a refuting observation; key names the *mechanism*"""
        book = self.known_hits if (self.pid, key) in self.known else self.violations
        ent = book.get(key)
        if ent is None:
            book[key] = [1, jsonable(witness)]
        else:
            ent[0] += 1

    def inconclusive_because(self, reason):
        self.inconclusive.append(reason)

    # ------------------------------------------------------------------
    def partial(self):
        return {
            "evaluations": self.evaluations,
            "distinct": [h.hex() for h in self.distinct] if len(self.distinct) <= 400000 else None,
            "distinct_n": len(self.distinct),
            "distinct_bulk": self.distinct_bulk,
            "samples": self.samples[:6],
            "counters": self.counters,
            "sets": {k: sorted(map(str, v))[:2000] for k, v in self.sets.items()},
            "violations": self.violations,
            "known_hits": self.known_hits,
            "inconclusive": self.inconclusive,
            "extra": self.extra,
        }

    def merge(self, part):
        self.evaluations += part["evaluations"]
        if part.get("distinct") is not None:
            for h in part["distinct"]:
                self.distinct.add(bytes.fromhex(h))
        else:
            self.distinct_bulk += part["distinct_n"]
        self.distinct_bulk += part["distinct_bulk"]
        for s in part["samples"]:
            if len(self.samples) < self.max_samples:
                self.samples.append(s)
        for k, v in part["counters"].items():
            self.count(k, v)
        for k, v in part["sets"].items():
            self.sets.setdefault(k, set()).update(v)
        for book, src in ((self.violations, part["violations"]), (self.known_hits, part["known_hits"])):
            for k, (n, w) in src.items():
                if k in book:
                    book[k][0] += n
                else:
                    book[k] = [n, w]
        self.inconclusive.extend(part["inconclusive"])
        for k, v in part.get("extra", {}).items():
            if isinstance(v, (int, float)) and isinstance(self.extra.get(k), (int, float)):
                self.extra[k] += v
            else:
                self.extra.setdefault(k, v)

    def run_shards(self, module, nshards=None, timeout=3000):
        """re-run this module in nshards subprocesses (thorough tier) and merge"""
        n = nshards or self.args.jobs
        pdir = os.path.join(OUT, "partial")
        os.makedirs(pdir, exist_ok=True)
        procs = []
        for i in range(n):
            ppath = os.path.join(pdir, "%s.%d.json" % (self.pid, i))
            if os.path.exists(ppath):
                os.unlink(ppath)
            cmd = [sys.executable, "-m", module, self.tier, "--shard", "%d/%d" % (i, n), "--partial", ppath]
            if self.args.only:
                cmd += ["--only", self.args.only]
            env = dict(os.environ)
            env["PYTHONPATH"] = os.pathsep.join([SRC, VERIF, os.path.join(VERIF, ".deps")])
            procs.append((i, ppath, subprocess.Popen(cmd, cwd=VERIF, env=env, stdout=subprocess.PIPE,
                                                     stderr=subprocess.STDOUT)))
        deadline = time.time() + timeout
        for i, ppath, p in procs:
            try:
                out, _ = p.communicate(timeout=max(1, deadline - time.time()))
            except subprocess.TimeoutExpired:
                p.kill()
                out, _ = p.communicate()
                self.inconclusive_because("shard %d hit the wall-clock watchdog" % i)
                continue
            if not os.path.exists(ppath):
                tail = out.decode("utf-8", "replace")[-1500:]
                self.inconclusive_because("shard %d produced no result (exit %s): %s" % (i, p.returncode, tail))
                continue
            with open(ppath) as f:
                self.merge(json.load(f))
            os.unlink(ppath)

    # ------------------------------------------------------------------
    def finish(self, require=()):
        """write evidence (or the partial), print verdict lines, exit.

        require: counter names that must be non-zero for the verdict 'held'
        (the deciding monitors); a zero there is inconclusive."""
        if self.args.partial:
            with open(self.args.partial + ".tmp", "w") as f:
                json.dump(self.partial(), f)
            os.replace(self.args.partial + ".tmp", self.args.partial)
            sys.exit(0)

        for name in require:
            if not self.counters.get(name):
                self.inconclusive_because("deciding monitor %r observed nothing" % name)

        distinct_n = len(self.distinct) + self.distinct_bulk
        wall = time.time() - self.t0
        coverage = {
            "evaluations": self.evaluations,
            "distinct_nontrivial": distinct_n,
            "rule": self.rule,
            "samples": self.samples or ["<none>"],
            "monitor_counters": dict(sorted(self.counters.items())),
            "observed_sets": {k: {"n": len(v), "items": sorted(map(str, v))[:60]} for k, v in sorted(self.sets.items())},
            "known_findings_hit": {k: v[0] for k, v in self.known_hits.items()},
            "violation_classes": {k: v[0] for k, v in self.violations.items()},
            "inconclusive": self.inconclusive,
        }
        if self.exhaustive is not None:
            coverage["exhaustive"] = bool(self.exhaustive)
        coverage.update(self.extra)
        ev = {
            "property_id": self.pid,
            "tier": self.tier if self.tier in ("quick", "thorough") else "quick",
            "seed": self.seed,
            "level": self.level,
            "coverage": coverage,
            "assumptions": self.assumptions,
            "wall_s": round(wall, 3),
            "violations": sum(v[0] for v in self.violations.values()),
        }
        if self.tier != "replay" and not os.environ.get("VERIF_NO_EVIDENCE"):
            os.makedirs(EVIDENCE_DIR, exist_ok=True)
            path = os.path.join(EVIDENCE_DIR, self.pid + ".json")
            with open(path + ".tmp", "w") as f:
                json.dump(ev, f, indent=1, sort_keys=True)
            os.replace(path + ".tmp", path)
            self._validate(path)

        for key, (n, w) in sorted(self.known_hits.items()):
            print("KNOWN-FINDING: property=%s %s -- %s (seen %d times this run)" % (
                self.pid, key, self.known[(self.pid, key)], n))
        code = EXIT_HELD
        if self.violations:
            rdir = os.path.join(OUT, "replay", self.pid)
            os.makedirs(rdir, exist_ok=True)
            for key, (n, w) in sorted(self.violations.items()):
                rp = os.path.join(rdir, "%s.json" % "".join(c if c.isalnum() or c in "-_." else "_" for c in key)[:120])
                with open(rp, "w") as f:
                    json.dump({"property": self.pid, "key": key, "count": n, "seed": self.seed,
                               "tier": self.tier, "witness": w}, f, indent=1)
                print("VIOLATION property=%s replay=%s" % (self.pid, rp))
                print("  class=%s count=%d witness=%s" % (key, n, json.dumps(w)[:600]))
            code = EXIT_VIOLATION
        elif self.inconclusive:
            for r in self.inconclusive[:10]:
                print("INCONCLUSIVE property=%s reason=%s" % (self.pid, r))
            code = EXIT_INCONCLUSIVE
        print("%s %s seed=%d: %d evaluations, %d distinct non-trivial, %.1fs -> %s" % (
            self.pid, self.tier, self.seed, self.evaluations, distinct_n, wall,
            {0: "held on what was observed", 1: "VIOLATED", 2: "inconclusive"}[code]))
        sys.stdout.flush()
        sys.exit(code)

    def _validate(self, path):
        try:
            import jsonschema
        except Exception:
            return
        schema_path = "/root/.vp/EVIDENCE.schema.json"
        local = os.path.join(VERIF, "rv", "EVIDENCE.schema.json")
        for sp in (local, schema_path):
            if os.path.exists(sp):
                with open(sp) as f:
                    schema = json.load(f)
                with open(path) as f:
                    doc = json.load(f)
                try:
                    jsonschema.validate(doc, schema)
                except jsonschema.ValidationError as err:
                    self.inconclusive_because("evidence does not validate: %s" % err.message[:200])
                return


def main_guard(fn):
    """run a check's main(); anything unexpected is inconclusive, never 'held'"""
    try:
        fn()
    except SystemExit:
        raise
    except Inconclusive as err:
        print("INCONCLUSIVE reason=%s" % err)
        sys.exit(EXIT_INCONCLUSIVE)
    except BaseException:
        traceback.print_exc()
        print("INCONCLUSIVE reason=harness crashed")
        sys.exit(EXIT_INCONCLUSIVE)
