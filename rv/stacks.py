"""
Stack builders (DESIGN.md 1.4): assemble *library* classes only, the same
wiring as BIPSimpleApplication with the UDP layer replaced by a VLAN node.
Test applications record request / indication / response / confirmation
events at the boundary, with virtual time and a unique token per request.
"""

import gc
from types import FrameType as _FrameType

from . import common

common.bootstrap()

from . import wire as W
from .vclock import CLOCK
from .fnet import FaultNet

from bacpypes.comm import bind
from bacpypes.pdu import Address, LocalBroadcast
from bacpypes.vlan import Node
from bacpypes.app import Application, ApplicationIOController
from bacpypes.appservice import StateMachineAccessPoint, ApplicationServiceAccessPoint, SSM, ClientSSM, ServerSSM
from bacpypes import appservice as _appservice
from bacpypes.netservice import NetworkServiceAccessPoint, NetworkServiceElement
from bacpypes.local.device import LocalDeviceObject
from bacpypes.iocb import IOCB
from bacpypes.primitivedata import OctetString, Unsigned, Real
from bacpypes.constructeddata import Any
from bacpypes.errors import ExecutionError, RejectException, AbortException, MissingRequiredParameter
from bacpypes.apdu import (ConfirmedPrivateTransferRequest, ConfirmedPrivateTransferACK, SimpleAckPDU, ComplexAckPDU,
                           ErrorPDU, RejectPDU, AbortPDU, ReadPropertyRequest, WritePropertyRequest,
                           ConfirmedRequestPDU, UnconfirmedRequestPDU, Error)

_dev_counter = [0]


def make_device(instance, **kw):
    args = dict(objectName="dev%d" % instance, objectIdentifier=("device", instance), vendorIdentifier=999,
                maxApduLengthAccepted=1024, segmentationSupported="segmentedBoth", maxSegmentsAccepted=16,
                apduSegmentTimeout=2000, apduTimeout=3000, numberOfApduRetries=3)
    args.update(kw)
    return LocalDeviceObject(**args)


def payload_for(token, n):
    """n octets that identify the token and have position dependent content"""
    head = b"T%08d:" % token
    body = bytes(((i * 31 + token * 7 + (i >> 8)) & 0xFF) for i in range(n))
    return (head + body)[:n] if n >= len(head) else body


def outcome_kind(apdu):
    if isinstance(apdu, SimpleAckPDU):
        return "simple-ack"
    if isinstance(apdu, ComplexAckPDU):
        return "complex-ack"
    if isinstance(apdu, ErrorPDU):
        return "error"
    if isinstance(apdu, RejectPDU):
        return "reject"
    if isinstance(apdu, AbortPDU):
        return "abort"
    return type(apdu).__name__


class RecordingMixin:
    """request / indication / response / confirmation recorder + scripted server behaviour"""

    def rec_init(self, name, events):
        self.name = name
        self.events = events
        self.behaviour = {}         # token -> (kind, response size, think time)
        self.default_behaviour = ("ack", 0, 0.0)
        self.pending_by_invoke = {}
        self.inbox = []             # every APDU handed to confirmation()/indication() of unconfirmed services

    def log(self, kind, **kw):
        kw.update(t=CLOCK.now, who=self.name, ev=kind)
        self.events.append(kw)

    # ---- client side
    def confirmation(self, apdu):
        info = {"outcome": outcome_kind(apdu), "invoke": apdu.apduInvokeID, "peer": str(apdu.pduSource)}
        if isinstance(apdu, ConfirmedPrivateTransferACK):
            info["token"] = apdu.serviceNumber
            try:
                info["payload"] = apdu.resultBlock.cast_out(OctetString) if apdu.resultBlock is not None else b""
            except Exception as err:
                info["payload_error"] = repr(err)
        if isinstance(apdu, (AbortPDU, RejectPDU)):
            info["reason"] = apdu.apduAbortRejectReason
        self.log("confirmation", **info)
        self.inbox.append(apdu)
        sup = super(RecordingMixin, self)
        if hasattr(sup, "confirmation"):
            try:
                sup.confirmation(apdu)
            except NotImplementedError:
                pass

    # ---- server side
    def indication(self, apdu):
        info = {"service": type(apdu).__name__, "invoke": getattr(apdu, "apduInvokeID", None), "peer": str(apdu.pduSource)}
        if isinstance(apdu, ConfirmedPrivateTransferRequest):
            info["token"] = apdu.serviceNumber
            try:
                info["payload"] = apdu.serviceParameters.cast_out(OctetString) if apdu.serviceParameters is not None else b""
            except Exception as err:
                info["payload_error"] = repr(err)
        self.log("indication", **info)
        super(RecordingMixin, self).indication(apdu)

    def respond(self, apdu, token):
        kind, size, think = self.behaviour.get(token, self.default_behaviour)

        def go():
            if kind == "silent":
                return
            if kind == "ack":
                resp = ConfirmedPrivateTransferACK(context=apdu)
                resp.vendorID = 999
                resp.serviceNumber = token
                resp.resultBlock = Any(OctetString(payload_for(token, size))) if size is not None else None
            elif kind == "error":
                resp = Error(errorClass="object", errorCode="unknownObject", context=apdu)
            elif kind == "reject":
                resp = RejectPDU(reason=5, context=apdu)
            elif kind == "abort":
                resp = AbortPDU(reason=0, context=apdu)           # (the role bit is the library's business)
            elif kind == "simple":
                resp = SimpleAckPDU(context=apdu)
            elif kind == "unknown-ack":
                # an acknowledgement of a service this library has no decoder for (a newer or a confused peer)
                resp = ComplexAckPDU(choice=99, context=apdu)
                resp.apduService = 99
                resp.put_data(b"\x09\x01")
            else:
                raise ValueError(kind)
            self.log("response" if kind != "unknown-ack" else "unreadable-response", token=token, behaviour=kind, invoke=apdu.apduInvokeID, peer=str(apdu.pduSource))
            self.response(resp)
        if think:
            from bacpypes.task import FunctionTask
            FunctionTask(go).install_task(delta=think)
        else:
            go()

    def do_ConfirmedPrivateTransferRequest(self, apdu):
        self.respond(apdu, apdu.serviceNumber)

    def do_WritePropertyRequest(self, apdu):
        # property array index carries the token for the scripted simple-ack / error / reject / abort behaviours
        token = apdu.propertyArrayIndex
        kind, size, think = self.behaviour.get(token, ("simple", 0, 0.0))
        if kind == "raise-error":
            raise ExecutionError(errorClass="property", errorCode="writeAccessDenied")
        if kind == "raise-reject":
            raise MissingRequiredParameter("scripted")
        if kind == "raise-abort":
            from bacpypes.errors import OutOfResources
            raise OutOfResources("scripted")
        self.respond(apdu, token)


class DirectApp(RecordingMixin, Application):
    """requests are submitted with Application.request()"""

    def __init__(self, device, name, events):
        Application.__init__(self, device)
        self.rec_init(name, events)


class IOApp(RecordingMixin, ApplicationIOController):
    """requests are submitted through request_io(IOCB)"""

    def __init__(self, device, name, events):
        ApplicationIOController.__init__(self, device)
        self.rec_init(name, events)

    def submit(self, apdu, token):
        iocb = IOCB(apdu)
        iocb.rv_token = token

        def done(iocb):
            self.log("iocb-callback", token=token, state=iocb.ioState, ok=iocb.ioResponse is not None,
                     outcome=outcome_kind(iocb.ioResponse if iocb.ioResponse is not None else iocb.ioError),
                     answer_token=getattr(iocb.ioResponse, "serviceNumber", None))
        iocb.add_callback(done)
        self.request_io(iocb)
        return iocb


class Stack:
    """device object + application + ASAP + SMAP + NSAP/NSE + VLAN node"""

    def __init__(self, lan, address, events, name=None, app_class=DirectApp, window=None, app_timeout=None, **device_kw):
        self.address = Address(address)
        self.name = name or ("s%s" % address)
        self.device = make_device(int(address) if isinstance(address, int) else 1, **device_kw)
        self.app = app_class(self.device, self.name, events)
        self.asap = ApplicationServiceAccessPoint()
        self.smap = StateMachineAccessPoint(self.device)
        self.smap.deviceInfoCache = self.app.deviceInfoCache
        if window is not None:
            self.smap.proposedWindowSize = window
        if app_timeout is not None:
            self.smap.applicationTimeout = app_timeout
        self.nsap = NetworkServiceAccessPoint()
        self.nse = NetworkServiceElement()
        bind(self.nse, self.nsap)
        bind(self.app, self.asap, self.smap, self.nsap)
        self.node = Node(self.address, lan)
        self.nsap.bind(self.node)

    # ---- request builders
    def cpt_request(self, dest, token, size):
        req = ConfirmedPrivateTransferRequest(vendorID=999, serviceNumber=token,
                                              serviceParameters=Any(OctetString(payload_for(token, size))) if size is not None else None,
                                              destination=Address(dest) if not isinstance(dest, Address) else dest)
        return req

    def wp_request(self, dest, token):
        req = WritePropertyRequest(objectIdentifier=("analogValue", 1), propertyIdentifier="presentValue",
                                   propertyArrayIndex=token, destination=Address(dest) if not isinstance(dest, Address) else dest)
        req.propertyValue = Any(Real(1.0))
        return req

    def send(self, req, token):
        self.app.log("request", token=token, service=type(req).__name__, peer=str(req.pduDestination))
        if isinstance(self.app, IOApp):
            return self.app.submit(req, token)
        self.app.request(req)
        return None


def transaction_census():
    """live transaction state machines anywhere in the process (name independent residue check)"""
    gc.collect()
    out = []
    objs = gc.get_objects()
    for o in objs:
        try:
            if isinstance(o, SSM):
                # a finished state machine that only lives on in the frames of a traceback (the loop variable of "invoke ID in
                # use", kept by the exception an application holds on to) is not kept by the stack
                if o.state in (_appservice.COMPLETED, _appservice.ABORTED) and not o.isScheduled and all(
                        r is objs or r is out or isinstance(r, _FrameType) for r in gc.get_referrers(o)):
                    continue
                out.append(o)
        except ReferenceError:
            pass
    return out


def heap_transaction_timers():
    return [t for when, n, t in CLOCK.tm.tasks if isinstance(t, SSM)]


def enc_len(token, size, ack=False):
    """octets of the service part (APDU minus fixed header) of a private transfer carrying `size` payload octets"""
    from bacpypes.apdu import APDU
    if ack:
        x = ConfirmedPrivateTransferACK(vendorID=999, serviceNumber=token)
        x.resultBlock = Any(OctetString(payload_for(token, size))) if size is not None else None
        y = ComplexAckPDU()
    else:
        x = ConfirmedPrivateTransferRequest(vendorID=999, serviceNumber=token,
                                            serviceParameters=Any(OctetString(payload_for(token, size))) if size is not None else None)
        y = ConfirmedRequestPDU()
    x.encode(y)
    return len(y.pduData)


def size_for_encoded(target, token, ack=False):
    """largest payload size whose encoded service part is <= target octets (None if even size 0 is larger)"""
    lo, hi = 0, max(target, 1)
    if enc_len(token, 0, ack) > target:
        return None
    while lo < hi:
        mid = (lo + hi + 1) // 2
        if enc_len(token, mid, ack) <= target:
            lo = mid
        else:
            hi = mid - 1
    return lo


# ----------------------------------------------------------------------
# frame decoding helpers for monitors (independent decoders only)
# ----------------------------------------------------------------------

def decode_frame(rec):
    """frame record -> dict(npci=..., apci=... | None) using rv.wire"""
    out = {"n": rec["n"], "t": rec["t"], "src": str(rec["src"]), "dst": str(rec["dst"]), "len": len(rec["octets"])}
    try:
        np = W.npci_parse(rec["octets"])
    except W.Malformed as err:
        out["malformed"] = "npci: %s" % err
        return out
    out["npci"] = np
    if np["net_message"] is None:
        try:
            out["apci"] = W.apci_parse(np["payload"])
            out["apdu_len"] = len(np["payload"])
        except W.Malformed as err:
            out["malformed"] = "apci: %s" % err
    return out


# ----------------------------------------------------------------------
# a device with the standard object services, and a synchronous client
# ----------------------------------------------------------------------

from bacpypes.service.device import WhoIsIAmServices, DeviceCommunicationControlServices
from bacpypes.service.object import ReadWritePropertyServices, ReadWritePropertyMultipleServices
from bacpypes.service.cov import ChangeOfValueServices


class ServiceApp(ApplicationIOController, WhoIsIAmServices, ReadWritePropertyServices, ReadWritePropertyMultipleServices, ChangeOfValueServices):
    pass


class PlainServiceApp(ApplicationIOController, WhoIsIAmServices, ReadWritePropertyServices, ReadWritePropertyMultipleServices):
    """the same without change-of-value reporting"""


class ServiceDevice:
    """device object + application with RP/WP/RPM/COV services + the usual layers on a VLAN node"""

    def __init__(self, lan, address, app_class=None, **device_kw):
        self.address = Address(address)
        self.device = make_device(int(address), **device_kw)
        self.app = (app_class or ServiceApp)(self.device)
        self.asap = ApplicationServiceAccessPoint()
        self.smap = StateMachineAccessPoint(self.device)
        self.smap.deviceInfoCache = self.app.deviceInfoCache
        self.nsap = NetworkServiceAccessPoint()
        self.nse = NetworkServiceElement()
        bind(self.nse, self.nsap)
        bind(self.app, self.asap, self.smap, self.nsap)
        self.node = Node(self.address, lan)
        self.nsap.bind(self.node)


class SyncClient(Stack):
    """client stack whose call() submits one confirmed request and returns the APDU that answers it"""

    def __init__(self, lan, address, events=None, **kw):
        Stack.__init__(self, lan, address, events if events is not None else [], "client%s" % address, DirectApp, **kw)

    def call(self, req, horizon=20.0):
        n0 = len(self.app.inbox)
        self.app.request(req)
        CLOCK.settle()
        if len(self.app.inbox) == n0:
            CLOCK.drive(duration=horizon)
        got = self.app.inbox[n0:]
        return got[0] if len(got) == 1 else (None if not got else got)


# ----------------------------------------------------------------------
# COV subscriber: records every notification at the boundary
# ----------------------------------------------------------------------

from bacpypes.primitivedata import Real as _Real, Unsigned as _Unsigned, Enumerated as _Enumerated
from bacpypes.basetypes import StatusFlags as _StatusFlags
from bacpypes.apdu import Error as _Error, RejectPDU as _RejectPDU, AbortPDU as _AbortPDU
from bacpypes.core import deferred as _core_deferred
from bacpypes.task import FunctionTask as _FunctionTask


class SubscriberApp(RecordingMixin, Application):
    def __init__(self, device, name, events):
        Application.__init__(self, device)
        self.rec_init(name, events)
        self.notifications = []
        self.confirmed_reply = "ack"
        self.ack_delay = 0.0        # seconds a confirmed notification stays unanswered
        self.defer_ack = False      # answer confirmed notifications on the next turn of the loop instead of at once
        self.refuse_procs = {}      # process id -> 'error' | 'reject' | 'abort': how confirmed notifications for it are answered

    def _note(self, apdu, confirmed):
        vals = {}
        for pv in apdu.listOfValues:
            pid = pv.propertyIdentifier
            try:
                if pid == "statusFlags":
                    vals[pid] = list(pv.value.cast_out(_StatusFlags))
                else:
                    tag = pv.value.tagList.tagList[0]
                    obj = tag.app_to_object()
                    vals[pid] = obj.value
            except Exception as err:
                vals[pid] = "undecodable: %r" % (err,)
        self.notifications.append({"t": CLOCK.now, "who": self.name, "confirmed": confirmed, "proc": apdu.subscriberProcessIdentifier,
                                   "obj": tuple(apdu.monitoredObjectIdentifier), "remaining": apdu.timeRemaining, "values": vals,
                                   "device": tuple(apdu.initiatingDeviceIdentifier)})

    def do_ConfirmedCOVNotificationRequest(self, apdu):
        self._note(apdu, True)
        how = self.refuse_procs.get(apdu.subscriberProcessIdentifier)
        if how == "error":
            answer = _Error(errorClass="services", errorCode="unknownSubscription", context=apdu)
        elif how == "reject":
            answer = _RejectPDU(reason=9, context=apdu)
        elif how == "abort":
            answer = _AbortPDU(reason=0, context=apdu)
        else:
            answer = SimpleAckPDU(context=apdu)
        if self.ack_delay:
            t = _FunctionTask(self.response, answer)
            t.install_task(delta=self.ack_delay)
        elif self.defer_ack:
            _core_deferred(self.response, answer)
        else:
            self.response(answer)

    def do_UnconfirmedCOVNotificationRequest(self, apdu):
        self._note(apdu, False)


class Subscriber(Stack):
    def __init__(self, lan, address, events=None, **kw):
        Stack.__init__(self, lan, address, events if events is not None else [], "sub%s" % address, SubscriberApp, **kw)

    def call(self, req, horizon=20.0):
        n0 = len(self.app.inbox)
        self.app.request(req)
        CLOCK.settle()
        got = self.app.inbox[n0:]
        return got[0] if len(got) == 1 else (None if not got else got)
