"""
C17  A commandable value equals its highest-priority command or the default.

Every commandable class of bacpypes.local.object (used the way the samples do:
a registered subclass) is driven by command histories; a 16-slot reference
array (+ a timer model for minimum on/off times) is compared after every
command by reading presentValue and priorityArray directly and over the wire.
"""

import inspect
import itertools

from .. import common
from ..common import Run, main_guard

common.bootstrap()

from ..vclock import CLOCK, StepBudgetExceeded
from ..fnet import FaultNet, Plan
from ..stacks import ServiceDevice, SyncClient

import bacpypes.local.object as LO
from bacpypes.object import register_object_type, Object
from bacpypes.primitivedata import (Null, Real, Double, Unsigned, Integer, BitString, CharacterString, OctetString, Date, Time,
                                    Enumerated, Atomic)
from bacpypes.basetypes import DateTime, PriorityValue, BinaryPV, DoorValue
from bacpypes.constructeddata import Any
from bacpypes.errors import ExecutionError
from bacpypes.apdu import WritePropertyRequest, ReadPropertyRequest, ReadPropertyACK, SimpleAckPDU, ErrorPDU, RejectPDU, AbortPDU, Error

RULE = ("all command sequences up to length 4 (quick) / 5 (thorough) over 4 priorities x 3 values x {write, relinquish} on an "
        "analog and a binary commandable object; random sequences of length 100 over all 16 priorities (incl. writes without "
        "priority, priorities 0/17/-1/255 and slot 0) for each of the 20 commandable classes, through direct WriteProperty "
        "calls and through WriteProperty requests over the virtual LAN; binary objects with minimum on/off times 0..10 s "
        "with virtual time advanced between commands.  A case is one command history; after every command presentValue, "
        "all 16 slots and relinquishDefault are compared with the reference")


def cmd_classes():
    out = []
    for name, cls in sorted(vars(LO).items()):
        if inspect.isclass(cls) and name.endswith("CmdObject") and issubclass(cls, Object) and any(
                getattr(b, "__name__", "") == "_Commando" for b in cls.__mro__):
            out.append(cls)
    return out


_registered = {}


def registered(cls):
    if cls not in _registered:
        sub = type("RV" + cls.__name__, (cls,), {})
        register_object_type(sub, vendor_id=999)
        _registered[cls] = sub
    return _registered[cls]


def commando(cls):
    return [b for b in cls.__mro__ if getattr(b, "__name__", "") == "_Commando"][0]


def datatype_of(cls):
    return cls._properties["presentValue"].datatype if "presentValue" in getattr(cls, "_properties", {}) else None


def values_for(dt):
    """three distinct python values acceptable for the datatype + how to wrap them for the wire"""
    if issubclass(dt, Enumerated):
        names = sorted(dt.enumerations, key=lambda k: dt.enumerations[k])[:3]
        return names
    if issubclass(dt, (Real, Double)):
        return [1.5, -20.0, 0.0]
    if issubclass(dt, Unsigned):
        return [1, 0, 7]
    if issubclass(dt, Integer):
        return [-5, 0, 9]
    if issubclass(dt, BitString):
        return [[1, 0, 1], [0, 0], [1, 1, 1, 1]]
    if issubclass(dt, CharacterString):
        return ["a", "bb", ""]
    if issubclass(dt, OctetString):
        return [b"\x01", b"\x02\x03", b""]
    if issubclass(dt, Date):
        return [(124, 1, 1, 1), (125, 12, 31, 3), (100, 6, 15, 255)]
    if issubclass(dt, Time):
        return [(1, 2, 3, 4), (23, 59, 59, 99), (0, 0, 0, 0)]
    if issubclass(dt, DateTime):
        return [DateTime(date=(124, 1, 1, 1), time=(1, 2, 3, 4)), DateTime(date=(125, 2, 2, 2), time=(5, 6, 7, 8)),
                DateTime(date=(126, 3, 3, 3), time=(9, 10, 11, 12))]
    return None


def norm(dt, v):
    if v is None:
        return None
    if isinstance(v, Atomic):
        v = v.value
    if issubclass(dt, Enumerated):
        return dt.enumerations.get(v, v) if isinstance(v, str) else v
    if issubclass(dt, (Real,)):
        import struct
        return struct.unpack(">f", struct.pack(">f", v))[0]
    if issubclass(dt, DateTime):
        return (tuple(v.date), tuple(v.time))
    if issubclass(dt, (Date, Time)):
        return tuple(v)
    if issubclass(dt, BitString):
        return list(v)
    if issubclass(dt, OctetString):
        return bytes(v)
    return v


def slot_value(dt, pv):
    """(is_null, value) of a PriorityValue read from the library"""
    found = []
    for el in PriorityValue.choiceElements:
        x = getattr(pv, el.name, None)
        if x is not None:
            found.append((el.name, x))
    if len(found) != 1:
        return ("?", found)
    name, x = found[0]
    if name == "null":
        return (True, None)
    return (False, norm(dt, x))


class Ref:
    def __init__(self, default):
        self.slots = [None] * 17        # 1..16
        self.default = default

    def pv(self):
        for i in range(1, 17):
            if self.slots[i] is not None:
                return self.slots[i]
        return self.default


def make_object(cls, dt, extra=None):
    sub = registered(cls)
    kw = dict(objectIdentifier=(sub.objectType, 1), objectName="obj")
    obj = sub(**kw)
    return obj


def compare(run, obj, dt, ref, wit, wire=None):
    run.count("comparisons")
    try:
        got_pv = norm(dt, obj.presentValue)
    except Exception as err:
        run.violation("reading-present-value-raised/" + type(err).__name__, dict(wit, error=repr(err)[:100]))
        return False
    if got_pv != ref.pv():
        hi = next((i for i in range(1, 17) if ref.slots[i] is not None), None)
        run.violation("present-value-is-not-the-highest-priority-command" if hi else "present-value-is-not-the-relinquish-default",
                      dict(wit, present_value=repr(got_pv), expected=repr(ref.pv()), winning_slot=hi))
        return False
    pa = obj.priorityArray
    for i in range(1, 17):
        isnull, val = slot_value(dt, pa[i])
        if isnull == "?":
            run.violation("priority-slot-malformed", dict(wit, slot=i, found=repr(val)[:100]))
            return False
        want = ref.slots[i]
        if (want is None) != bool(isnull) or (want is not None and val != want):
            run.violation("priority-slot-does-not-hold-last-command", dict(wit, slot=i, holds=repr(val), expected=repr(want)))
            return False
    if norm(dt, obj.relinquishDefault) != ref.default:
        run.violation("relinquish-default-changed", dict(wit))
        return False
    if wire is not None:
        # the same through ReadProperty requests
        client, dev = wire
        oid = obj.objectIdentifier
        ack = client.call(ReadPropertyRequest(objectIdentifier=oid, propertyIdentifier="presentValue", destination=dev.address))
        run.count("wire_reads")
        if not isinstance(ack, ReadPropertyACK):
            run.violation("read-present-value-over-the-wire-failed", dict(wit, answer=type(ack).__name__))
            return False
        try:
            v = ack.propertyValue.cast_out(dt)
        except Exception as err:
            run.violation("present-value-on-the-wire-not-decodable", dict(wit, error=repr(err)[:100]))
            return False
        if norm(dt, v) != ref.pv():
            run.violation("present-value-over-the-wire-differs", dict(wit, got=repr(norm(dt, v)), expected=repr(ref.pv())))
            return False
        idx = wit.get("last_priority") or 16
        if 1 <= idx <= 16:
            ack = client.call(ReadPropertyRequest(objectIdentifier=oid, propertyIdentifier="priorityArray", propertyArrayIndex=idx, destination=dev.address))
            if not isinstance(ack, ReadPropertyACK):
                run.violation("read-priority-slot-over-the-wire-failed", dict(wit, answer=type(ack).__name__, slot=idx))
                return False
            pv = ack.propertyValue.cast_out(PriorityValue)
            isnull, val = slot_value(dt, pv)
            want = ref.slots[idx]
            if (want is None) != bool(isnull) or (want is not None and val != want):
                run.violation("priority-slot-over-the-wire-differs", dict(wit, slot=idx, holds=repr(val), expected=repr(want)))
                return False
    return True


def wrap(dt, v):
    """python value -> object to cast into the Any of a WriteProperty request"""
    if v is None:
        return Null()
    if issubclass(dt, DateTime):
        return v
    return dt(v)


def apply_command(run, obj, dt, ref, op, wit, wire=None):
    """op: (priority | None, value | None=relinquish).  Returns False when a violation was recorded."""
    prio, v = op
    valid = prio is None or (isinstance(prio, int) and 1 <= prio <= 16)
    before = (list(ref.slots), ref.pv())
    bad_value = isinstance(v, tuple) and len(v) == 2 and v[0] == "not-in-enumeration"
    if bad_value:
        v = v[1]
        valid = False
    if wire is None:
        try:
            obj.WriteProperty("presentValue", () if v is None else v, priority=prio)
            ok = True
        except ExecutionError:
            ok = False
        except Exception as err:
            if valid:
                run.violation("command-raised/" + type(err).__name__, dict(wit, op=repr(op), error=repr(err)[:100]))
                return False
            ok = False
    else:
        client, dev = wire
        req = WritePropertyRequest(objectIdentifier=obj.objectIdentifier, propertyIdentifier="presentValue", destination=dev.address)
        req.propertyValue = Any()
        req.propertyValue.cast_in(wrap(dt, v))
        if prio is not None:
            req.priority = prio
        try:
            ack = client.call(req)
        except Exception as err:
            # a priority the request cannot even carry (negative, > 255): refused before it reaches the wire
            if valid:
                run.violation("request-could-not-be-sent/" + type(err).__name__, dict(wit, op=repr(op), error=repr(err)[:100]))
                return False
            return True
        run.count("wire_writes")
        ok = isinstance(ack, SimpleAckPDU)
        if not ok and not isinstance(ack, (ErrorPDU, RejectPDU, AbortPDU)):
            run.violation("write-over-the-wire-not-answered", dict(wit, op=repr(op), answer=repr(ack)[:80]))
            return False
    if valid:
        if not ok:
            run.violation("valid-command-refused", dict(wit, op=repr(op)))
            return False
        ref.slots[prio if prio is not None else 16] = None if v is None else norm(dt, v)
        run.count("commands_applied")
    elif bad_value:
        # a value the enumeration does not define: refused (then nothing may change - the comparison that follows sees to
        # that), or taken as it is
        run.count("undefined_enumeration_values_tried")
        if ok and (prio is None or 1 <= prio <= 16):
            ref.slots[prio if prio is not None else 16] = norm(dt, v)
    else:
        run.count("invalid_priorities_tried")
        if ok:
            run.violation("command-with-invalid-priority-acknowledged", dict(wit, op=repr(op)))
            return False
    return True


def run_history(run, cls, ops, wire=False, label="random", check_every=True):
    dt = datatype_of(registered(cls))
    vals = values_for(dt)
    wit = {"class": cls.__name__, "via": "wire" if wire else "direct", "ops": [repr(o) for o in ops[:12]], "history_class": label}
    CLOCK.reset()
    try:
        obj = make_object(cls, dt)
    except Exception as err:
        run.count("cannot_build")
        run.seen("cannot_build_reasons", cls.__name__ + ":" + type(err).__name__)
        return
    w = None
    if wire:
        lan = FaultNet("lan", Plan())
        lan.frame_cap = 10 ** 9
        dev = ServiceDevice(lan, 5)
        dev.app.add_object(obj)
        client = SyncClient(lan, 1)
        CLOCK.settle()
        w = (client, dev)
    ref = Ref(norm(dt, obj.relinquishDefault))
    if not compare(run, obj, dt, ref, dict(wit, step=-1), w):
        return
    for k, op in enumerate(ops):
        wk = dict(wit, step=k, op=repr(op), last_priority=op[0])
        if not apply_command(run, obj, dt, ref, op, wk, w):
            return
        if check_every or k == len(ops) - 1:
            if not compare(run, obj, dt, ref, wk, w):
                return
    run.count("histories")


# ----------------------------------------------------------------------
# minimum on / off times
# ----------------------------------------------------------------------

def min_on_off_history(run, rng, cls, on_time, off_time, nsteps, cov=False):
    """binary objects: a change to active holds slot 6 = active for minimumOnTime, to inactive for minimumOffTime.
    cov: the object lives in a device with the change-of-value services and subscriptions to it come and go meanwhile"""
    CLOCK.reset()
    dt = datatype_of(registered(cls))
    obj = make_object(cls, dt)
    obj.minimumOnTime = on_time
    obj.minimumOffTime = off_time
    wit = {"class": cls.__name__, "minimum_on_time": on_time, "minimum_off_time": off_time, "cov_subscriptions": cov}
    client = dev = None
    if cov:
        from bacpypes.apdu import SubscribeCOVRequest
        obj.statusFlags = [0, 0, 0, 0]
        lan = FaultNet("lan", Plan())
        lan.frame_cap = 10 ** 9
        dev = ServiceDevice(lan, 5)
        dev.app.add_object(obj)
        client = SyncClient(lan, 1)
        CLOCK.settle()
    ref = Ref(norm(dt, obj.relinquishDefault))
    hold_until = [None]
    log = []

    def ref_change(old, new, now):
        """reference timer model: on a change of the present value, hold the new state in slot 6"""
        if old == new:
            return
        delay = on_time if new == 1 else off_time
        if delay:
            ref.slots[6] = new
            hold_until[0] = now + delay

    def ref_advance(to):
        while hold_until[0] is not None and hold_until[0] <= to:
            t = hold_until[0]
            hold_until[0] = None
            old = ref.pv()
            ref.slots[6] = None
            ref_change(old, ref.pv(), t)

    for k in range(nsteps):
        r = rng.random()
        if cov and r < 0.25:
            # subscribe (for a short or a long while) or cancel; the unconfirmed notifications go to the client and are ignored
            proc = rng.choice([1, 2])
            req = SubscribeCOVRequest(subscriberProcessIdentifier=proc, monitoredObjectIdentifier=obj.objectIdentifier, destination=dev.address)
            kind = rng.choice(["subscribe", "subscribe", "cancel"])
            if kind == "subscribe":
                req.issueConfirmedNotifications = False
                req.lifetime = rng.choice([1, 2, 4, 30])
            ack = client.call(req)
            run.count("cov_subscribes" if kind == "subscribe" else "cov_cancellations", 1 if isinstance(ack, SimpleAckPDU) else 0)
            ref_advance(CLOCK.now)
            log.append((CLOCK.now - CLOCK.START, (kind, proc, getattr(req, "lifetime", None))))
        elif r < 0.6:
            prio = rng.choice([1, 3, 5, 7, 8, 16, None])
            v = rng.choice(["active", "inactive", None])
            op = (prio, v)
            old = ref.pv()
            ref.slots[prio if prio is not None else 16] = None if v is None else norm(dt, v)
            ref_change(old, ref.pv(), CLOCK.now)
            try:
                obj.WriteProperty("presentValue", () if v is None else v, priority=prio)
            except Exception as err:
                run.violation("command-raised/" + type(err).__name__, dict(wit, op=repr(op), error=repr(err)[:100]))
                return
            log.append((CLOCK.now - CLOCK.START, op))
        else:
            d = rng.choice([0.5, 1.0, on_time, off_time, on_time + 0.5, off_time + 0.5, 11.0])
            try:
                CLOCK.drive(duration=d, max_steps=100000)
            except StepBudgetExceeded as err:
                run.violation("minimum-on-off-timer-spins", dict(wit, error=str(err)))
                return
            ref_advance(CLOCK.now)
            log.append((CLOCK.now - CLOCK.START, ("advance", d)))
        wk = dict(wit, step=k, log=log[-8:], at=CLOCK.now - CLOCK.START)
        run.count("comparisons")
        got = norm(dt, obj.presentValue)
        isnull, s6 = slot_value(dt, obj.priorityArray[6])
        if s6 != ref.slots[6] or got != ref.pv():
            state = "active" if (ref.slots[6] == 1 or s6 == 1) else "inactive"
            run.violation("minimum-%s-time-not-held-or-not-released" % ("on" if state == "active" else "off"),
                          dict(wk, slot6=s6, expected_slot6=ref.slots[6], present_value=got, expected=ref.pv()))
            return
    run.count("min_on_off_histories")


def multi_object_min_on_off(run, rng, nobj, nsteps):
    """several binary objects with different minimum times in one process (one scheduler): every object's hold is released at
    its own time whatever the others' timers are doing"""
    CLOCK.reset()
    objs = []
    for i in range(nobj):
        cls = rng.choice([LO.BinaryOutputCmdObject, LO.BinaryValueCmdObject])
        sub = registered(cls)
        dt = datatype_of(sub)
        obj = sub(objectIdentifier=(sub.objectType, 10 + i), objectName="m%d" % i)
        on_t, off_t = rng.choice([1, 2, 4, 9, 9, 0]), rng.choice([2, 5, 8, 8, 0])
        obj.minimumOnTime = on_t
        obj.minimumOffTime = off_t
        objs.append({"obj": obj, "dt": dt, "on": on_t, "off": off_t, "ref": Ref(norm(dt, obj.relinquishDefault)), "hold": None})
    wit = {"objects": [(o["obj"].objectIdentifier[0], o["on"], o["off"]) for o in objs]}
    log = []

    def change(o, old, new, now):
        if old == new:
            return
        delay = o["on"] if new == 1 else o["off"]
        if delay:
            o["ref"].slots[6] = new
            o["hold"] = now + delay

    def advance_refs(to):
        for o in objs:
            while o["hold"] is not None and o["hold"] <= to:
                t = o["hold"]
                o["hold"] = None
                old = o["ref"].pv()
                o["ref"].slots[6] = None
                change(o, old, o["ref"].pv(), t)

    for k in range(nsteps):
        if k < nobj or rng.random() < 0.6:
            # (to begin with every object is switched once, so that several holds are pending together)
            o = objs[k] if k < nobj else rng.choice(objs)
            prio = rng.choice([1, 3, 5, 7, 8, 16, None])
            v = rng.choice(["active", "inactive", None]) if k >= nobj else "active"
            holding = [x for x in objs if x["hold"] is not None]
            if k >= nobj and holding and rng.random() < 0.6:
                # an object whose hold is pending is forced the other way from above the hold: its timer is re-armed while the
                # timers of the others are pending
                o = rng.choice(holding)
                prio = rng.choice([1, 3, 5])
                v = "inactive" if o["ref"].pv() == 1 else "active"
            old = o["ref"].pv()
            o["ref"].slots[prio if prio is not None else 16] = None if v is None else norm(o["dt"], v)
            change(o, old, o["ref"].pv(), CLOCK.now)
            try:
                o["obj"].WriteProperty("presentValue", () if v is None else v, priority=prio)
            except Exception as err:
                run.violation("command-raised/" + type(err).__name__, dict(wit, op=repr((objs.index(o), prio, v)), error=repr(err)[:100]))
                return
            log.append((round(CLOCK.now - CLOCK.START, 2), objs.index(o), prio, v))
        else:
            d = rng.choice([0.5, 1.0, 1.0, 2.0, 3.0, 4.5, 10.0])
            try:
                CLOCK.drive(duration=d, max_steps=100000)
            except StepBudgetExceeded as err:
                run.violation("minimum-on-off-timer-spins", dict(wit, error=str(err)))
                return
            advance_refs(CLOCK.now)
            log.append((round(CLOCK.now - CLOCK.START, 2), "advance", d))
        for i, o in enumerate(objs):
            run.count("comparisons")
            got = norm(o["dt"], o["obj"].presentValue)
            isnull, s6 = slot_value(o["dt"], o["obj"].priorityArray[6])
            if s6 != o["ref"].slots[6] or got != o["ref"].pv():
                run.violation("minimum-time-not-held-or-not-released/several-objects",
                              dict(wit, object=i, step=k, log=log[-8:], slot6=s6, expected_slot6=o["ref"].slots[6], present_value=got, expected=o["ref"].pv()))
                return
    run.count("multi_object_histories")


def main():
    run = Run("C17", "exploration", RULE, assumptions=[
        "the ...CmdObject classes are used through a subclass passed to register_object_type (as the samples do); "
        "minimum on/off times are set after construction",
        "a write whose value type the object does not check is still a command: slot content is compared as given",
        "minimum on/off: on every change of presentValue with a non-zero time for the new state slot 6 takes the new state "
        "until the time has elapsed; commands at priority 6 itself are not generated"])
    if run.tier == "replay":
        run.inconclusive_because("replay: re-run the tier with the same VERIF_SEED")
        return run.finish()
    thorough = run.tier == "thorough"
    if thorough and run.args.shard is None:
        run.run_shards("rv.props.c17", timeout=3400)
        run.exhaustive = True
        return run.finish(require=("histories", "comparisons", "commands_applied", "invalid_priorities_tried", "wire_reads", "min_on_off_histories",
                                   "undefined_enumeration_values_tried", "cov_subscribes", "cov_cancellations"))
    rng = run.rng("c17")
    classes = cmd_classes()
    run.extra["commandable_classes"] = [c.__name__ for c in classes]
    # (1) exhaustive short sequences on an analog and a binary object
    maxlen = 5 if thorough else 4
    idx = 0
    for cls in (LO.AnalogValueCmdObject, LO.BinaryValueCmdObject):
        dt = datatype_of(registered(cls))
        vals = values_for(dt)
        ops = [(p, v) for p in (1, 8, 15, 16) for v in vals + [None]]
        for ln in range(1, maxlen + 1):
            for seq in itertools.product(ops, repeat=ln):
                idx += 1
                if not run.mine(idx):
                    continue
                run.bulk(1)
                run_history(run, cls, list(seq), wire=False, label="exhaustive", check_every=False)
        run.sample({"class": cls.__name__, "alphabet": [repr(o) for o in ops], "all_sequences_up_to_length": maxlen})
    # (2) random long histories for every class, direct and over the wire
    for cls in classes:
        dt = datatype_of(registered(cls))
        vals = values_for(dt)
        if vals is None:
            run.count("classes_without_value_generator")
            continue
        for rep in range((6 if thorough else 2)):
            idx += 1
            if not run.mine(idx):
                continue
            for wire in (False, True):
                ops = []
                for _ in range(100 if not wire else 40):
                    r = rng.random()
                    if r < 0.08:
                        prio = rng.choice([0, 17, -1, 255, 100])
                    elif r < 0.18:
                        prio = None
                    else:
                        prio = rng.randrange(1, 17)
                    if issubclass(dt, Enumerated) and rng.random() < 0.08:
                        top = max(dt.enumerations.values())
                        ops.append((prio, ("not-in-enumeration", rng.choice([top + 1, top + 7, 250] + ([] if wire else ["bogus"])))))
                    else:
                        ops.append((prio, rng.choice(vals + [None, None])))
                run.case((cls.__name__, wire, rep, run.shard[0]), sample={"class": cls.__name__, "via": "wire" if wire else "direct", "ops": [repr(o) for o in ops[:5]]},
                         sample_key=(cls.__name__, wire) if rep == 0 and cls in (classes[0], classes[-1]) else None)
                run_history(run, cls, ops, wire=wire)
    # (3) minimum on / off
    for cls in (LO.BinaryOutputCmdObject, LO.BinaryValueCmdObject):
        for on_t, off_t in itertools.product([0, 1, 3, 10], [0, 2, 5, 10]):
            for rep in range(4 if thorough else 1):
                idx += 1
                if not run.mine(idx):
                    continue
                run.case(("minonoff", cls.__name__, on_t, off_t, rep, run.shard[0]), sample={"class": cls.__name__, "min_on": on_t, "min_off": off_t},
                         sample_key=("mo", on_t == 0))
                min_on_off_history(run, rng, cls, on_t, off_t, 60)
                if (on_t or off_t) and (thorough or (on_t, off_t) in ((1, 2), (3, 5), (10, 0), (0, 10), (3, 10))):
                    run.case(("minonoff-cov", cls.__name__, on_t, off_t, rep, run.shard[0]), sample=None)
                    min_on_off_history(run, rng, cls, on_t, off_t, 80, cov=True)
    # (4) several binary objects with their own minimum times sharing the scheduler
    for rep in range((6000 if thorough else 250) // (run.shard[1] if thorough else 1) + 1):
        run.case(("multi-minonoff", run.shard[0], rep), sample=None)
        multi_object_min_on_off(run, rng, rng.choice([3, 4, 6]), 60)
    run.exhaustive = True
    run.finish(require=("histories", "comparisons", "commands_applied", "invalid_priorities_tried", "wire_reads", "min_on_off_histories",
                                   "undefined_enumeration_values_tried", "cov_subscribes", "cov_cancellations"))


if __name__ == "__main__":
    main_guard(main)
