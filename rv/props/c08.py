"""
C08  Network-layer headers and messages encode and decode faithfully.

Oracle: rv.wire.npci_build / npci_parse / nlm_build (clause 6.2, 6.4).
"""

import itertools

from .. import common
from ..common import Run, main_guard

common.bootstrap()

from .. import wire as W

from bacpypes.pdu import PDU, Address, RemoteStation, RemoteBroadcast, GlobalBroadcast
from bacpypes.errors import DecodingError
from bacpypes import npdu as N

RULE = ("header fields: destination shape {none, remote station with 1/2/6/7/255-octet address, remote broadcast, global "
        "broadcast} x source shape {none, 1/2/6/7/255-octet station} x hop {0,1,254,255} x message type {none, 0..255 "
        "with vendor id for >=0x80} x priority 0..3 x expecting-reply, encoded by NPDU.encode and compared octet for "
        "octet with the reference, decoded back; all 256 control octets (incl. reserved bits) on decode; the twelve "
        "messages with network lists 0..20, routing tables 0..5 entries, port info 0..255; all octet strings up to "
        "length 2 (quick) / 3 (thorough); truncation/substitution/insertion mutants of valid frames")

ADDRS = [bytes([5]), bytes([1, 2]), bytes([10, 0, 0, 1, 0xBA, 0xC0]), bytes(range(7)), bytes([i & 0xFF for i in range(255)])]
NETS = [1, 2, 255, 256, 65534]
HOPS = [0, 1, 254, 255]


def dest_shapes():
    yield None
    for net in NETS[:3]:
        for a in ADDRS:
            yield ("rs", net, a)
    for net in NETS:
        yield ("rb", net, b"")
    yield ("gb", 0xFFFF, b"")


def src_shapes():
    yield None
    for net in (1, 65534, 0):
        for a in ADDRS:
            yield (net, a)


def to_lib(f):
    n = N.NPDU()
    d = f.get("dest")
    if d:
        n.npduDADR = {"rs": lambda: RemoteStation(d[1], d[2]), "rb": lambda: RemoteBroadcast(d[1]),
                      "gb": lambda: GlobalBroadcast()}[d[0]]()
        n.npduHopCount = f["hop"]
    s = f.get("src")
    if s:
        n.npduSADR = RemoteStation(s[0], s[1])
    n.npduNetMessage = f.get("net_message")
    n.npduVendorID = f.get("vendor")
    n.pduExpectingReply = f.get("der", 0)
    n.pduNetworkPriority = f.get("prio", 0)
    n.pduData = bytearray(f.get("payload", b""))
    return n


def to_ref(f):
    r = dict(net_message=f.get("net_message"), vendor=f.get("vendor"), der=f.get("der"), prio=f.get("prio", 0),
             payload=f.get("payload", b""))
    if f.get("dest"):
        r.update(dnet=f["dest"][1], dadr=f["dest"][2], hop=f["hop"])
    if f.get("src"):
        r.update(snet=f["src"][0], sadr=f["src"][1])
    return r


def lib_fields(n):
    f = {"der": bool(n.pduExpectingReply), "prio": n.pduNetworkPriority, "dnet": None, "dadr": b"", "snet": None,
         "sadr": b"", "hop": n.npduHopCount, "net_message": n.npduNetMessage, "vendor": n.npduVendorID,
         "payload": bytes(n.pduData)}
    d = n.npduDADR
    if d is not None:
        if d.addrType == Address.remoteStationAddr:
            f["dnet"], f["dadr"] = d.addrNet, bytes(d.addrAddr)
        elif d.addrType == Address.remoteBroadcastAddr:
            f["dnet"] = d.addrNet
        elif d.addrType == Address.globalBroadcastAddr:
            f["dnet"] = 0xFFFF
        else:
            f["dnet"] = ("?", d.addrType)
    s = n.npduSADR
    if s is not None:
        f["snet"], f["sadr"] = s.addrNet, bytes(s.addrAddr or b"")
    return f


def compare(ref, got):
    keys = ("der", "prio", "dnet", "dadr", "snet", "sadr", "hop", "net_message", "vendor", "payload")
    diff = {}
    for k in keys:
        a, b = ref.get(k), got.get(k)
        if k == "dadr" and ref.get("dnet") == 0xFFFF:
            continue            # DLEN of a global broadcast is 0 by definition; extra octets are not interpreted
        if k in ("dadr", "sadr", "payload"):
            a, b = bytes(a or b""), bytes(b or b"")
        if a != b:
            diff[k] = (repr(b)[:40], repr(a)[:40])
    return diff


def lib_decode(octets):
    n = N.NPDU()
    n.decode(PDU(octets))
    return n


def check_header(run, f):
    wit = {"fields": {k: (v if not isinstance(v, (bytes, tuple)) else repr(v)[:60]) for k, v in f.items()}}
    want = W.npci_build(to_ref(f))
    try:
        pdu = PDU()
        to_lib(f).encode(pdu)
        got = bytes(pdu.pduData)
    except Exception as err:
        run.violation("npci-encode-raised/" + type(err).__name__, dict(wit, error=repr(err)[:120]))
        return
    run.count("headers_encoded")
    if got != want:
        k = next((i for i in range(min(len(got), len(want))) if got[i] != want[i]), min(len(got), len(want)))
        run.violation("npci-layout-differs", dict(wit, at=k, got=got[:k + 6][-12:], want=want[:k + 6][-12:]))
        return
    try:
        n = lib_decode(got)
    except Exception as err:
        run.violation("own-npci-not-decodable/" + type(err).__name__, wit)
        return
    run.count("headers_decoded")
    diff = compare(W.npci_parse(want), lib_fields(n))
    if diff:
        run.violation("npci-roundtrip-differs/" + ",".join(sorted(diff)), dict(wit, diff=diff))


def check_octets(run, o, label="octets"):
    try:
        ref = W.npci_parse(o)
    except W.Malformed as e:
        ref = None
        why = str(e)
    try:
        n = lib_decode(o)
    except DecodingError:
        run.count("refused")
        if ref is not None:
            run.violation("valid-npci-refused", {"octets": o[:40]})
        return
    except Exception as err:
        run.violation("npci-decode-raised-other-than-DecodingError/" + type(err).__name__, {"octets": o[:40], "error": repr(err)[:100]})
        return
    run.count("decoded")
    if ref is None:
        run.violation("forbidden-or-truncated-header-accepted/" + why.split()[0], {"octets": o[:40], "why": why})
        return
    diff = compare(ref, lib_fields(n))
    if diff:
        run.violation("decoded-npci-differs-from-reference/" + ",".join(sorted(diff)), {"octets": o[:40], "diff": diff})
        return
    # the same octets decoded into an object that has been used before (it still holds the previous header): what the object
    # says afterwards is this header, nothing of the last one
    global USED, USED_LAST
    if USED is None:
        USED = N.NPDU()
    try:
        USED.decode(PDU(o))
    except Exception as err:
        run.violation("decoding-into-a-used-object-raised/" + type(err).__name__, {"octets": o[:40], "previous": USED_LAST})
        USED = None
        return
    run.count("decoded_into_a_used_object")
    diff = compare(ref, lib_fields(USED))
    if diff:
        run.violation("decoded-into-a-used-object-differs/" + ",".join(sorted(diff)), {"octets": o[:40], "previous_octets": USED_LAST, "diff": diff})
    USED_LAST = o[:40]


USED = None
USED_LAST = None


# ----------------------------------------------------------------------
# messages
# ----------------------------------------------------------------------

def message_cases(rng, thorough):
    nets = lambda k: [rng.choice([0, 1, 255, 256, 65534, 65535, rng.randrange(65536)]) for _ in range(k)]
    yield 0x00, N.WhoIsRouterToNetwork, {"net": None}
    for net in (0, 1, 255, 256, 65534, 65535):
        yield 0x00, N.WhoIsRouterToNetwork, {"net": net}
    for cls, t in ((N.IAmRouterToNetwork, 1), (N.RouterBusyToNetwork, 4), (N.RouterAvailableToNetwork, 5)):
        for k in range(0, 21):
            yield t, cls, {"nets": nets(k)}
    for net in (0, 1, 65535):
        for perf in (0, 1, 255):
            yield 2, N.ICouldBeRouterToNetwork, {"net": net, "perf": perf}
    for reason in range(0, 256, 1 if thorough else 17):
        for net in (0, 1, 65535):
            yield 3, N.RejectMessageToNetwork, {"reason": reason, "net": net}
    for cls, t in ((N.InitializeRoutingTable, 6), (N.InitializeRoutingTableAck, 7)):
        for k in range(0, 6):
            for il in ([0, 1, 255] if not thorough else [0, 1, 2, 127, 128, 254, 255]):
                table = [(rng.choice([1, 255, 256, 65534]), rng.choice([0, 1, 255]), bytes(rng.getrandbits(8) for _ in range(il if j == 0 else rng.choice([0, 3]))))
                         for j in range(k)]
                yield t, cls, {"table": table}
    for net in (0, 1, 65535):
        for tm in (0, 1, 255):
            yield 8, N.EstablishConnectionToNetwork, {"net": net, "time": tm}
        yield 9, N.DisconnectConnectionToNetwork, {"net": net}
        for flag in (0, 1, 255):
            yield 0x13, N.NetworkNumberIs, {"net": net, "flag": flag}
    yield 0x12, N.WhatIsNetworkNumber, {}


def build_message(cls, p):
    if cls is N.WhoIsRouterToNetwork:
        return cls(p["net"])
    if cls in (N.IAmRouterToNetwork, N.RouterBusyToNetwork, N.RouterAvailableToNetwork):
        return cls(list(p["nets"]))
    if cls is N.ICouldBeRouterToNetwork:
        return cls(p["net"], p["perf"])
    if cls is N.RejectMessageToNetwork:
        return cls(p["reason"], p["net"])
    if cls in (N.InitializeRoutingTable, N.InitializeRoutingTableAck):
        return cls([N.RoutingTableEntry(d, pt, info) for d, pt, info in p["table"]])
    if cls is N.EstablishConnectionToNetwork:
        return cls(p["net"], p["time"])
    if cls is N.DisconnectConnectionToNetwork:
        return cls(p["net"])
    if cls is N.NetworkNumberIs:
        return cls(p["net"], p["flag"])
    return cls()


def message_params(msg):
    c = type(msg)
    if c is N.WhoIsRouterToNetwork:
        return {"net": msg.wirtnNetwork}
    if c is N.IAmRouterToNetwork:
        return {"nets": list(msg.iartnNetworkList)}
    if c is N.RouterBusyToNetwork:
        return {"nets": list(msg.rbtnNetworkList)}
    if c is N.RouterAvailableToNetwork:
        return {"nets": list(msg.ratnNetworkList)}
    if c is N.ICouldBeRouterToNetwork:
        return {"net": msg.icbrtnNetwork, "perf": msg.icbrtnPerformanceIndex}
    if c is N.RejectMessageToNetwork:
        return {"reason": msg.rmtnRejectionReason, "net": msg.rmtnDNET}
    if c is N.InitializeRoutingTable:
        return {"table": [(e.rtDNET, e.rtPortID, bytes(e.rtPortInfo)) for e in msg.irtTable]}
    if c is N.InitializeRoutingTableAck:
        return {"table": [(e.rtDNET, e.rtPortID, bytes(e.rtPortInfo)) for e in msg.irtaTable]}
    if c is N.EstablishConnectionToNetwork:
        return {"net": msg.ectnDNET, "time": msg.ectnTerminationTime}
    if c is N.DisconnectConnectionToNetwork:
        return {"net": msg.dctnDNET}
    if c is N.NetworkNumberIs:
        return {"net": msg.nniNet, "flag": msg.nniFlag}
    return {}


def check_message(run, mtype, cls, p, hdr):
    wit = {"message": cls.__name__, "params": repr(p)[:200], "header": repr(hdr)[:120]}
    if N.npdu_types.get(mtype) is not cls:
        run.violation("message-type-registry-wrong", wit)
        return
    body = W.nlm_build(mtype, p)
    ref = dict(hdr, net_message=mtype, payload=body)
    want = W.npci_build(to_ref(ref))
    try:
        msg = build_message(cls, p)
        if hdr.get("dest"):
            d = hdr["dest"]
            msg.npduDADR = {"rs": lambda: RemoteStation(d[1], d[2]), "rb": lambda: RemoteBroadcast(d[1]), "gb": lambda: GlobalBroadcast()}[d[0]]()
            msg.npduHopCount = hdr["hop"]
        if hdr.get("src"):
            msg.npduSADR = RemoteStation(*hdr["src"])
        msg.pduNetworkPriority = hdr.get("prio", 0)
        mid = N.NPDU()
        msg.encode(mid)
        pdu = PDU()
        mid.encode(pdu)
        got = bytes(pdu.pduData)
    except Exception as err:
        run.violation("message-encode-raised/%s/%s" % (cls.__name__, type(err).__name__), dict(wit, error=repr(err)[:120]))
        return
    run.count("messages_encoded")
    if got != want:
        run.violation("message-octets-differ/" + cls.__name__, dict(wit, got=got[:40], want=want[:40]))
        return
    try:
        n = lib_decode(got)
        m2 = N.npdu_types[n.npduNetMessage]()
        m2.decode(n)
    except Exception as err:
        run.violation("own-message-not-decodable/%s/%s" % (cls.__name__, type(err).__name__), wit)
        return
    run.count("messages_decoded")
    if type(m2) is not cls or message_params(m2) != {k: (list(v) if isinstance(v, list) else v) for k, v in p.items()}:
        run.violation("message-roundtrip-differs/" + cls.__name__, dict(wit, decoded=repr(message_params(m2))[:200]))
        return
    # truncated bodies: a DecodingError, unless what is left is itself a well-formed message of the type (a shorter network
    # list, the parameterless Who-Is-Router) - then exactly that message; never another exception, never a misreading
    for cut in range(len(body)):
        o = W.npci_build(to_ref(dict(hdr, net_message=mtype, payload=body[:cut])))
        try:
            legal = W.nlm_parse(mtype, body[:cut])
        except W.NLMalformed:
            legal = None
        try:
            n = lib_decode(o)
            m3 = N.npdu_types[mtype]()
            m3.decode(n)
            run.count("truncated_bodies_accepted")
        except DecodingError:
            run.count("truncated_bodies_refused")
            if legal is not None:
                run.violation("well-formed-shorter-message-refused/" + cls.__name__, dict(wit, cut=cut, octets=o[:40]))
                return
            continue
        except Exception as err:
            run.violation("truncated-message-raised-other/%s/%s" % (cls.__name__, type(err).__name__), dict(wit, cut=cut))
            return
        got3 = message_params(m3)
        if legal is None:
            run.violation("truncated-message-misread/" + cls.__name__, dict(wit, cut=cut, octets=o[:40], read_as=repr(got3)[:120]))
            return
        if got3 != {k: ([tuple(x) if isinstance(x, (list, tuple)) else x for x in v] if isinstance(v, list) else v) for k, v in legal.items()}:
            run.violation("shorter-message-read-differently/" + cls.__name__, dict(wit, cut=cut, read_as=repr(got3)[:120], reference=repr(legal)[:120]))
            return


def main():
    run = Run("C08", "exploration", RULE, assumptions=[
        "rv/wire.py npci_build/npci_parse/nlm_build transcribe clauses 6.2.2 and 6.4",
        "reserved control bits (0x40, 0x10) are ignored on decode; a DNET of 0xFFFF is a global broadcast whatever DLEN says",
        "a truncated message body must raise DecodingError or decode to a shorter list - never another exception"])
    if run.tier == "replay":
        return replay(run)
    thorough = run.tier == "thorough"
    if thorough and run.args.shard is None:
        run.run_shards("rv.props.c08")
        run.exhaustive = True
        return run.finish(require=("headers_encoded", "headers_decoded", "messages_decoded", "refused", "decoded"))
    rng = run.rng("c08")
    idx = 0
    mtypes = [None] + (list(range(256)) if thorough else [0, 1, 0x13, 0x14, 0x7F, 0x80, 0x81, 0xFF])
    payloads = [b"", b"\x01\x02\x03"]
    for dest, src in itertools.product(dest_shapes(), src_shapes()):
        for hop in (HOPS if dest else [None]):
            for mt in mtypes:
                for prio, der in (itertools.product(range(4), (0, 1)) if thorough or mt in (None, 0x80) else [(idx % 4, idx & 1)]):
                    idx += 1
                    if not run.mine(idx):
                        continue
                    f = dict(dest=dest, src=src, hop=hop, net_message=mt, vendor=(rng.choice([0, 1, 555, 65535]) if mt is not None and mt >= 0x80 else None),
                             prio=prio, der=der, payload=payloads[idx % 2])
                    run.case(repr(f), sample={"fields": repr(f)[:160], "octets": W.npci_build(to_ref(f))[:16]},
                             sample_key=("h", bool(dest), bool(src), mt is None))
                    check_header(run, f)
    # every control octet on decode, with fields present as the bits say
    for ctl in range(256):
        for variant in range(6 if thorough else 3):
            idx += 1
            if not run.mine(idx):
                continue
            o = bytearray([1, ctl])
            if ctl & 0x20:
                dn = rng.choice([1, 0xFFFF, 300, 0])
                da = rng.choice([b"", ADDRS[0], ADDRS[2]])
                o += dn.to_bytes(2, "big") + bytes([len(da)]) + da
            if ctl & 0x08:
                sn = rng.choice([1, 0xFFFF, 300, 0]) if variant else 7
                sa = rng.choice([b"", ADDRS[0], ADDRS[2]]) if variant else ADDRS[1]
                o += sn.to_bytes(2, "big") + bytes([len(sa)]) + sa
            if ctl & 0x20:
                o.append(rng.choice(HOPS))
            if ctl & 0x80:
                mt = rng.choice([0, 1, 0x13, 0x80, 0xFF])
                o.append(mt)
                if mt >= 0x80:
                    o += b"\x02\x2b"
            o += bytes(rng.getrandbits(8) for _ in range(rng.randrange(0, 5)))
            run.case(bytes(o))
            check_octets(run, bytes(o))
            # and every truncation of it
            for cut in range(len(o)):
                run.case(bytes(o[:cut]))
                check_octets(run, bytes(o[:cut]))
    # versions other than 1
    for v in range(256):
        idx += 1
        if run.mine(idx):
            run.case(("ver", v))
            check_octets(run, bytes([v, 0x00, 0x10, 0x08]))
    # messages
    hdrs = [dict(), dict(dest=("gb", 0xFFFF, b""), hop=255), dict(dest=("rs", 9, ADDRS[2]), hop=1, src=(3, ADDRS[0]), prio=3),
            dict(dest=("rb", 65534, b""), hop=0)]
    for mtype, cls, p in message_cases(rng, thorough):
        for hdr in (hdrs if thorough else [hdrs[idx % 4], hdrs[0]]):
            idx += 1
            if not run.mine(idx):
                continue
            run.case(("msg", cls.__name__, repr(p), repr(hdr)), sample={"message": cls.__name__, "params": repr(p)[:100]},
                     sample_key=("m", cls.__name__))
            check_message(run, mtype, cls, p, hdr)
    # exhaustive short strings
    maxlen = 3 if thorough else 2
    for ln in range(0, maxlen + 1):
        for k, tup in enumerate(itertools.product(range(256), repeat=ln)):
            if run.mine(k >> 8):
                check_octets(run, bytes(tup))
                run.bulk(1)
    run.sample({"octet_strings_exhaustive_up_to_length": maxlen})
    # mutants of valid frames
    valid = []
    for dest, src in itertools.product(list(dest_shapes())[::4], list(src_shapes())[::5]):
        f = dict(dest=dest, src=src, hop=(7 if dest else None), net_message=None, prio=1, der=1, payload=b"\x10\x08")
        valid.append(W.npci_build(to_ref(f)))
    for v in valid:
        if len(v) > 60 and not thorough:
            continue
        for pos in range(min(len(v), 24) + 1):
            idx += 1
            if not run.mine(idx):
                continue
            muts = []
            for s in (0x00, 0xFF, 0x01, 0x80):
                muts.append(v[:pos] + bytes([s]) + v[pos:])
                if pos < len(v):
                    muts.append(v[:pos] + bytes([s]) + v[pos + 1:])
            if pos < len(v):
                for bit in range(8):
                    muts.append(v[:pos] + bytes([v[pos] ^ (1 << bit)]) + v[pos + 1:])
            for m in muts:
                run.case(m)
                check_octets(run, m)
    for _ in range((200000 if thorough else 20000) // run.shard[1]):
        o = bytes([1]) + bytes(rng.getrandbits(8) for _ in range(rng.randrange(1, 20)))
        run.case(o)
        check_octets(run, o)
    run.exhaustive = True
    run.finish(require=("headers_encoded", "headers_decoded", "messages_decoded", "refused", "decoded"))


def replay(run):
    import json
    with open(run.replay_path) as f:
        w = json.load(f)["witness"]
    if "octets" in w:
        check_octets(run, bytes.fromhex(w["octets"][4:]))
    else:
        run.inconclusive_because("witness is a structured case; re-run the quick tier with the same VERIF_SEED")
    run.finish()


if __name__ == "__main__":
    main_guard(main)
