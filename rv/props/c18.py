"""
C18  Addresses parse, print, compare and hash coherently in every notation.

Oracle: an independent parser for the documented notations + the standard
ipaddress module for subnet / host / directed broadcast; equivalence-relation
and dictionary probes over pools of equivalent spellings.
"""

import re
import struct
import ipaddress
import itertools

from .. import common
from ..common import Run, main_guard

common.bootstrap()

from bacpypes.pdu import Address, LocalStation, RemoteStation, LocalBroadcast, RemoteBroadcast, GlobalBroadcast, \
    pack_ip_addr, unpack_ip_addr

RULE = ("every station number 0..300 and network numbers {0,1,65533,65534,65535,65536,70000} in every spelling (decimal, "
        "0x.., X'..', int, bytes, typed constructors, two-argument form), IPv4 addresses x all 33 mask lengths x port "
        "boundaries checked against ipaddress, octet strings of length 1..7, pools of equivalent spellings (all pairs: "
        "==, !=, hash, dict lookup, both directions, and inequality across pools), str()/parse round trip of every "
        "address built, and grammar-mutated ASCII strings that the reference parser classifies as valid or ill-formed")

NULL, LB, LS, RB, RS, GB = 0, 1, 2, 3, 4, 5

_DEC = re.compile(r"^[0-9]+$")
_HEX = re.compile(r"^0x((?:[0-9A-Fa-f]{2})+)$")
_XHEX = re.compile(r"^X'((?:[0-9A-Fa-f]{2})+)'$")
_IP = re.compile(r"^(\d+)\.(\d+)\.(\d+)\.(\d+)(?:/(\d+))?(?::(\d+))?$")
_ETH = re.compile(r"^[0-9A-Fa-f]{2}(:[0-9A-Fa-f]{2}){5}$")


class Invalid(Exception):
    pass


class Ambiguous(Exception):
    pass


def ref_station(s, allow_mask=True):
    """-> dict(octets=..., ip=dict|None)"""
    if _DEC.match(s):
        if len(s) > 12:
            raise Ambiguous()
        v = int(s)
        if v > 255:
            raise Invalid("station > 255")
        return {"octets": bytes([v]), "ip": None}
    m = _HEX.match(s) or _XHEX.match(s)
    if m:
        return {"octets": bytes.fromhex(m.group(1)), "ip": None}
    m = _IP.match(s)
    if m:
        parts = m.groups()[:4]
        for p in parts:
            if (len(p) > 1 and p[0] == "0"):
                raise Ambiguous()          # inet_aton reads these as octal
            if int(p) > 255:
                raise Invalid("ip octet")
        mask = m.group(5)
        port = m.group(6)
        if mask is not None:
            if len(mask) > 3:
                raise Ambiguous()
            if int(mask) > 32:
                raise Invalid("mask")
        if port is not None:
            if len(port) > 8:
                raise Ambiguous()
            if int(port) > 65535:
                raise Invalid("port")
        ip = ".".join(str(int(p)) for p in parts)
        port = 47808 if port is None else int(port)
        plen = 32 if mask is None else int(mask)
        iface = ipaddress.ip_interface("%s/%d" % (ip, plen))
        ipn = int(iface.ip)
        maskn = int(iface.netmask)
        return {"octets": bytes(int(p) for p in parts) + struct.pack(">H", port),
                "ip": {"tuple": (ip, port), "mask": maskn, "subnet": int(iface.network.network_address),
                       "host": ipn & (~maskn & 0xFFFFFFFF),
                       "broadcast": (str(iface.network.broadcast_address), port)}}
    raise Invalid("station")


def ref_parse(s):
    """-> dict(type, net, octets, ip) ; raises Invalid / Ambiguous"""
    if any(not (33 <= ord(c) <= 126) for c in s):
        raise Invalid("a character that no notation uses (white space, line end, control, not ASCII)")
    route = None
    if "@" in s:
        s, route = s.split("@", 1)
        # route: decimal station, 0x.. octets or ip[:port] (no X'..' form, no mask); the documented route notation
        # only exists for bases written as decimal, 0x.., ip or '*' (not for X'..' stations)
        if _XHEX.match(route) or "/" in route:
            raise Invalid("route form")
        if "X'" in s:
            raise Invalid("route on X'' station")
        ref_station(route)
    if s == "*":
        return {"type": LB, "net": None, "octets": None, "ip": None}
    if s == "*:*":
        return {"type": GB, "net": None, "octets": None, "ip": None}
    if _ETH.match(s) and route is None:
        return {"type": LS, "net": None, "octets": bytes.fromhex(s.replace(":", "")), "ip": None}
    net = None
    rest = s
    m = re.match(r"^([0-9]+):(.*)$", s)
    if m and not _IP.match(s):
        if len(m.group(1)) > 12:
            raise Ambiguous()
        net = int(m.group(1))
        rest = m.group(2)
        if net > 65534:
            raise Invalid("network > 65534")
    elif m:
        # "1.2.3.4:5" is ip:port, but "7:1.2.3.4" has a net; decide by the dot position
        pass
    if net is not None and rest == "*":
        return {"type": RB, "net": net, "octets": None, "ip": None}
    if rest == "*" or rest.startswith("*"):
        raise Invalid("star")
    st = ref_station(rest)
    return {"type": RS if net is not None else LS, "net": net, "octets": st["octets"], "ip": st["ip"]}


def denotes(a):
    """what the library object says"""
    d = {"type": a.addrType, "net": a.addrNet, "octets": a.addrAddr if a.addrAddr is None else bytes(a.addrAddr)}
    return d


def check_denotation(run, a, ref, wit):
    got = denotes(a)
    want = {"type": ref["type"], "net": ref["net"], "octets": ref["octets"]}
    if got != want:
        run.violation("parsed-address-differs/" + ",".join(k for k in want if want[k] != got[k]), dict(wit, got=repr(got), want=repr(want)))
        return False
    if a.addrAddr is not None and a.addrLen != len(a.addrAddr):
        run.violation("address-length-field-wrong", wit)
        return False
    ip = ref.get("ip")
    if ip:
        g = {"tuple": tuple(a.addrTuple), "mask": a.addrMask, "subnet": a.addrSubnet, "host": a.addrHost,
             "broadcast": tuple(a.addrBroadcastTuple)}
        if g != ip:
            run.violation("ip-derived-fields-differ/" + ",".join(k for k in ip if ip[k] != g[k]), dict(wit, got=repr(g), want=repr(ip)))
            return False
        run.count("ip_forms_checked_against_ipaddress")
    return True


def check_roundtrip(run, a, wit):
    try:
        s = str(a)
        b = Address(s)
    except Exception as err:
        run.violation("printed-form-not-parseable/" + type(err).__name__, dict(wit, error=repr(err)[:100]))
        return
    run.count("print_parse_roundtrips")
    try:
        ha, hb = hash(a), hash(b)
        {a: 1}
    except Exception as err:
        run.violation("address-not-hashable/" + type(err).__name__, dict(wit, error=repr(err)[:100]))
        return
    if not (b == a) or not (a == b) or (a != b) or ha != hb or denotes(a) != denotes(b):
        run.violation("print-parse-roundtrip-differs", dict(wit, printed=s, reparsed=repr(denotes(b))))


def check_string(run, s, must=None):
    """one notation string against the reference parser"""
    wit = {"text": s}
    try:
        ref = ref_parse(s)
    except Ambiguous:
        run.count("ambiguous_skipped")
        return None
    except Invalid as e:
        ref = None
        why = str(e)
    try:
        a = Address(s)
    except Exception as err:
        run.count("refused")
        run.seen("refusal_types", type(err).__name__)
        if ref is not None:
            run.violation("valid-notation-refused/" + type(err).__name__, dict(wit, error=repr(err)[:100]))
        return None
    run.count("accepted")
    if ref is None:
        run.violation("ill-formed-notation-accepted/" + why.replace(" ", "-"), dict(wit, parsed=repr(denotes(a))))
        return None
    if check_denotation(run, a, ref, wit):
        check_roundtrip(run, a, wit)
    return a


def build(spec):
    """spec: ('s', text) | ('i', int) | ('b', bytes) | ('t', (ip, port)) | ('2', net, arg) | ('LS', arg) |
    ('RS', net, arg) | ('LB',) | ('RB', net) | ('GB',)"""
    k = spec[0]
    if k in ("s", "i", "b", "t"):
        return Address(spec[1])
    if k == "2":
        return Address(spec[1], spec[2])
    return {"LS": LocalStation, "RS": RemoteStation, "LB": LocalBroadcast, "RB": RemoteBroadcast, "GB": GlobalBroadcast}[k](*spec[1:])


def check_pools(run, pools):
    """pools: list of lists of specs; same pool == equal, different pools != """
    objs = []
    for pi, pool in enumerate(pools):
        for spec in pool:
            try:
                objs.append((pi, spec, build(spec)))
            except Exception as err:
                run.violation("equivalent-spelling-refused/" + type(err).__name__, {"spec": repr(spec), "error": repr(err)[:100]})
    table = {}
    hashable = []
    for pi, spec, a in objs:
        try:
            table.setdefault(a, pi)
            hashable.append((pi, spec, a))
        except Exception as err:
            run.violation("address-not-hashable/" + type(err).__name__, {"spec": repr(spec), "error": repr(err)[:100]})
    objs = hashable
    for (pa, sa, a), (pb, sb, b) in itertools.product(objs, repeat=2):
        run.count("pairs_compared")
        eq, ne = (a == b), (a != b)
        if eq == ne:
            run.violation("eq-and-ne-inconsistent", {"a": repr(sa), "b": repr(sb)})
            return
        if pa == pb:
            if not eq:
                run.violation("equivalent-spellings-unequal", {"a": repr(sa), "b": repr(sb)})
                return
            if hash(a) != hash(b):
                run.violation("equal-addresses-hash-differently", {"a": repr(sa), "b": repr(sb)})
                return
            if table.get(b) != table.get(a) or {a: 1}.get(b) != 1:
                run.violation("equal-addresses-hit-different-dict-entries", {"a": repr(sa), "b": repr(sb)})
                return
        elif eq:
            run.violation("different-addresses-compare-equal", {"a": repr(sa), "b": repr(sb)})
            return
    # transitivity / symmetry over the whole set (follows from the above, asserted anyway on a sample)
    for (pa, sa, a), (pb, sb, b), (pc, sc, c) in itertools.islice(itertools.product(objs, repeat=3), 0, 20000, 7):
        if (a == b) and (b == c) and not (a == c):
            run.violation("equality-not-transitive", {"a": repr(sa), "b": repr(sb), "c": repr(sc)})
            return
        if (a == b) != (b == a):
            run.violation("equality-not-symmetric", {"a": repr(sa), "b": repr(sb)})
            return


def check_route_aware(run):
    from bacpypes.settings import settings
    texts = ["5", "5@6", "5@7", "5@1.2.3.4", "6", "6@6", "1:5", "1:5@6", "1:5@9", "2:5@6", "1:*", "1:*@6", "1:*@7", "*:*", "*:*@6",
             "1.2.3.4", "1.2.3.4@1.2.3.5", "1.2.3.4:47809@6", "0x0102", "0x0102@6", "0x0102@7"]
    old = settings.route_aware
    settings.route_aware = True
    try:
        objs = []
        for t in texts:
            try:
                objs.append((t, Address(t)))
            except Exception as err:
                run.violation("routed-notation-refused-in-route-aware-mode/" + type(err).__name__, {"text": t})
        for (ta, a), (tb, b) in itertools.product(objs, repeat=2):
            run.count("route_aware_pairs_compared")
            eq = (a == b)
            if eq != (b == a):
                run.violation("equality-not-symmetric/route-aware", {"a": ta, "b": tb})
                return
            if eq == (a != b):
                run.violation("eq-and-ne-inconsistent/route-aware", {"a": ta, "b": tb})
                return
            if eq and (hash(a) != hash(b) or {a: 1}.get(b) != 1):
                run.violation("equal-addresses-hash-differently/route-aware", {"a": ta, "b": tb})
                return
            if eq and ta.split("@")[0] != tb.split("@")[0]:
                run.violation("different-addresses-compare-equal/route-aware", {"a": ta, "b": tb})
                return
            if not eq and ta.split("@")[0] == tb.split("@")[0] and ("@" not in ta or "@" not in tb or ta == tb):
                run.violation("equivalent-spellings-unequal/route-aware", {"a": ta, "b": tb})
                return
        for (ta, a), (tb, b), (tc, c) in itertools.product(objs, repeat=3):
            if (a == b) and (b == c) and not (a == c):
                # mechanism: an address without a route equals the same address with any route
                if "@" not in tb and "@" in ta and "@" in tc:
                    run.violation("route-aware-equality-takes-a-missing-route-for-any-route", {"a": ta, "b": tb, "c": tc})
                else:
                    run.violation("equality-not-transitive/route-aware", {"a": ta, "b": tb, "c": tc})
                break
    finally:
        settings.route_aware = old


def station_pool(v):
    h = "%02x" % v
    return [("s", str(v)), ("i", v), ("s", "0x" + h), ("s", "X'%s'" % h.upper()), ("b", bytes([v])), ("LS", v),
            ("LS", bytes([v])), ("s", "00" + str(v)), ("b", bytearray([v]))]


def remote_pool(net, v):
    h = "%02x" % v
    return [("s", "%d:%d" % (net, v)), ("2", net, v), ("RS", net, v), ("s", "%d:0x%s" % (net, h)), ("s", "%d:X'%s'" % (net, h)),
            ("RS", net, bytes([v])), ("2", net, str(v)), ("2", net, bytes([v])), ("s", "0%d:%d" % (net, v))]


def ip_pool(ip, port, net=None):
    o = bytes(int(x) for x in ip.split(".")) + struct.pack(">H", port)
    n = int(ipaddress.ip_address(ip))
    pool = [("s", "%s:%d" % (ip, port)), ("t", (ip, port)), ("t", (n, port)), ("b", o), ("s", "0x" + o.hex()),
            ("s", "X'%s'" % o.hex()), ("LS", o), ("s", "%s/24:%d" % (ip, port)), ("s", "%s/0:%d" % (ip, port)),
            ("s", ":".join("%02x" % x for x in o))]
    if port == 47808:
        pool += [("s", ip), ("s", ip + "/16")]
    if net is not None:
        pool = [("s", "%d:%s:%d" % (net, ip, port)), ("RS", net, o), ("2", net, o), ("2", net, "%s:%d" % (ip, port)),
                ("s", "%d:0x%s" % (net, o.hex())), ("2", net, (ip, port))]
    return pool


ALPHABET = "0123456789*:./xX'abcdefABCDEFgGzZ_^[`@ -\n\t\u0663\uff15"       # (line ends and digits of other scripts are not part of any notation)


def main():
    run = Run("C18", "exploration", RULE, assumptions=[
        "ipaddress (standard library) is the reference for subnet, host and directed-broadcast values",
        "default settings (route_aware off): a @route suffix is accepted notation and must not influence equality or hash",
        "IPv4 components with leading zeros and non-ASCII digits are treated as ambiguous and skipped",
        "refusal = any exception from the constructor"])
    if run.tier == "replay":
        return replay(run)
    thorough = run.tier == "thorough"
    rng = run.rng("c18")

    # 1. station numbers and network numbers in every spelling
    for v in range(0, 301):
        for s in (str(v), "1:%d" % v, "65534:%d" % v):
            run.case(s, sample={"text": s}, sample_key=("st", v in (0, 255, 256)))
            check_string(run, s)
        for spec in (("i", v), ("LS", v), ("RS", 1, v), ("2", 7, v)):
            run.case(repr(spec))
            try:
                a = build(spec)
                ok = True
            except Exception:
                ok = False
            run.count("typed_ctor_cases")
            if ok != (v <= 255):
                run.violation("station-range-check-wrong", {"spec": repr(spec), "accepted": ok})
            elif ok:
                check_roundtrip(run, a, {"spec": repr(spec)})
    for net in (0, 1, 65533, 65534, 65535, 65536, 70000, -1):
        for spec in (("s", "%d:5" % net), ("s", "%d:*" % net), ("s", "%d:0x0102" % net), ("s", "%d:1.2.3.4" % net),
                     ("2", net, 5), ("2", net, "*"), ("2", net, b"\x01\x02"), ("RS", net, 5), ("RB", net), ("RS", net, b"\x01\x02")):
            if net < 0 and spec[0] == "s":
                continue
            run.case(repr(spec), sample={"spec": repr(spec)}, sample_key=("net", net > 65534, spec[0]))
            try:
                a = build(spec)
                ok = True
            except Exception:
                ok = False
            run.count("network_range_cases")
            if ok != (0 <= net <= 65534):
                run.violation("network-range-check-wrong/" + ("two-argument-form" if spec[0] == "2" else "string" if spec[0] == "s" else "typed"),
                              {"spec": repr(spec), "accepted": ok})
            elif ok:
                if a.addrNet != net:
                    run.violation("network-number-altered", {"spec": repr(spec), "net": a.addrNet})
                check_roundtrip(run, a, {"spec": repr(spec)})

    # 2. IPv4 x masks x ports against ipaddress
    ips = ["0.0.0.0", "1.2.3.4", "10.0.0.255", "127.0.0.1", "128.0.0.0", "192.168.1.129", "255.255.255.255", "172.16.254.1"]
    ports = [None, 0, 1, 47807, 47808, 47809, 47823, 47824, 65535, 65536, 70000]
    for ip, mask, port in itertools.product(ips if thorough else ips[:5], [None] + list(range(0, 34)), ports):
        s = ip + ("" if mask is None else "/%d" % mask) + ("" if port is None else ":%d" % port)
        for text in (s, "9:" + s):
            run.case(text, sample={"text": text}, sample_key=("ip", mask is None, port is None))
            check_string(run, text)
    for ip, port in itertools.product(ips, [0, 1, 47808, 65535, 65536, 70000, -1]):
        for spec in (("t", (ip, port)), ("t", (int(ipaddress.ip_address(ip)), port))):
            run.case(repr(spec))
            try:
                a = build(spec)
                ok = True
            except Exception:
                ok = False
            run.count("tuple_cases")
            if ok != (0 <= port <= 65535):
                run.violation("port-range-check-wrong/tuple", {"spec": repr(spec), "accepted": ok})
            elif ok:
                want = bytes(int(x) for x in ip.split(".")) + struct.pack(">H", port)
                if bytes(a.addrAddr) != want or a.addrType != LS or tuple(a.addrTuple) != (ip, port):
                    run.violation("tuple-address-differs", {"spec": repr(spec), "octets": a.addrAddr})
                if unpack_ip_addr(pack_ip_addr((ip, port))) != (ip, port) or pack_ip_addr((ip, port)) != want:
                    run.violation("pack-unpack-ip-differs", {"spec": repr(spec)})
                check_roundtrip(run, a, {"spec": repr(spec)})

    # 3. octet strings of length 1..7
    for ln in range(1, 8):
        for _ in range(200 if thorough else 40):
            o = bytes(rng.getrandbits(8) for _ in range(ln))
            if rng.random() < 0.35 and ln >= 2:
                # a tail that looks like a BACnet/IP port (the printer treats 6-octet addresses with such a tail as IPv4)
                o = o[:ln - 2] + struct.pack(">H", rng.choice([47808, 47809, 47813, 47823, 47824, 47807]))
            for spec, (t, net) in ((("b", o), (LS, None)), (("s", "0x" + o.hex()), (LS, None)), (("s", "X'%s'" % o.hex().upper()), (LS, None)),
                                   (("s", "300:0x" + o.hex()), (RS, 300)), (("LS", o), (LS, None)), (("RS", 2, o), (RS, 2)), (("2", 5, o), (RS, 5))):
                run.case(repr(spec))
                try:
                    a = build(spec)
                except Exception as err:
                    run.violation("octet-string-notation-refused/" + type(err).__name__, {"spec": repr(spec)})
                    continue
                run.count("octet_string_cases")
                if denotes(a) != {"type": t, "net": net, "octets": o}:
                    run.violation("octet-string-address-differs", {"spec": repr(spec), "got": repr(denotes(a))})
                    continue
                if ln == 6 and getattr(a, "addrTuple", None) is not None:
                    # six octets are an IP address and a port: what the address offers as socket tuple / port must be those
                    want_t = (".".join(str(x) for x in o[:4]), struct.unpack(">H", o[4:])[0])
                    run.count("ip_fields_of_raw_octets_checked")
                    got_t = (tuple(a.addrTuple), getattr(a, "addrPort", want_t[1]))
                    bt = getattr(a, "addrBroadcastTuple", None)
                    if got_t != (want_t, want_t[1]) or (bt is not None and tuple(bt)[1] != want_t[1]):
                        run.violation("ip-derived-fields-differ/raw-octets", {"spec": repr(spec), "got": repr(got_t), "want": repr(want_t),
                                                                              "broadcast_tuple": repr(bt)})
                        continue
                check_roundtrip(run, a, {"spec": repr(spec)})

    # 4. pools of equivalent spellings
    pools = [[("s", "*"), ("LB",)], [("s", "*:*"), ("GB",)]]
    for net in (0, 1, 65534):
        pools.append([("s", "%d:*" % net), ("RB", net), ("2", net, "*"), ("s", "0%d:*" % net)])
    for v in (0, 1, 5, 255):
        pools.append(station_pool(v))
        for net in (0, 1, 65534):
            pools.append(remote_pool(net, v))
    pools.append(ip_pool("1.2.3.4", 47808))
    pools.append(ip_pool("1.2.3.4", 47809))
    pools.append(ip_pool("1.2.3.5", 47808))
    pools.append(ip_pool("1.2.3.4", 47808, net=1))
    pools.append(ip_pool("1.2.3.4", 47808, net=2))
    pools.append(ip_pool("0.0.0.0", 0))
    pools.append([("b", b"\x01\x02"), ("s", "0x0102"), ("s", "X'0102'"), ("LS", b"\x01\x02")])
    pools.append([("RS", 1, b"\x01\x02"), ("s", "1:0x0102"), ("2", 1, b"\x01\x02"), ("2", 1, "0x0102")])
    # route suffixes must not matter (route_aware is off)
    pools[5] = pools[5] + [("s", "5@6"), ("s", "5@7"), ("s", "5@1.2.3.4")] if pools[5][0] == ("s", "5") else pools[5]
    for p in pools:
        if p[0] == ("s", "5"):
            p += [("s", "5@6"), ("s", "5@7"), ("s", "5@1.2.3.4"), ("s", "5@0x0102")]
        if p[0] == ("s", "1:5"):
            p += [("s", "1:5@6"), ("s", "1:5@9")]
    run.case("pools", sample={"pool": [repr(s) for s in pools[5][:12]]})
    run.extra["pools"] = len(pools)
    run.extra["spellings"] = sum(len(p) for p in pools)
    check_pools(run, pools)

    # 4b. the same relations with settings.route_aware switched on (what routers and the route-aware application use)
    check_route_aware(run)

    # 5. grammar-mutated strings
    seeds = ["5", "255", "1:5", "65534:255", "1:*", "*", "*:*", "1.2.3.4", "1.2.3.4:47809", "10.20.30.40/24", "1.2.3.4/8:1",
             "7:1.2.3.4", "7:1.2.3.4:5", "0x01", "0x0102", "X'0a0B'", "3:0x0102", "3:X'0102'", "01:02:03:04:05:06", "5@6",
             "1:5@1.2.3.4", "1:5@0x0102", "*@5", "1:*@5"]
    for s in ["0x01GG", "5:0x02ZZ", "0xZZ", "5:*@0x01GG", "0x0_", "0x^1", "X'0G'", "7:X'ZZ'", "0x[1", "0x`a"]:
        run.case(s)
        check_string(run, s)         # near misses of the octet-string notations
    for s in seeds:
        run.case(s)
        check_string(run, s)
        for tail in ("\n", " ", "\r\n", "\u0663"):
            run.case(s + tail)
            check_string(run, s + tail)
    n = 600000 if thorough else 60000
    for _ in range(n):
        s = rng.choice(seeds)
        for _ in range(rng.choice((1, 1, 1, 2, 3))):
            k = rng.randrange(4)
            pos = rng.randrange(len(s) + 1)
            if k == 0:
                s = s[:pos] + rng.choice(ALPHABET) + s[pos:]
            elif k == 1 and s:
                s = s[:pos] + s[pos + 1:]
            elif k == 2 and pos < len(s):
                s = s[:pos] + rng.choice(ALPHABET) + s[pos + 1:]
            else:
                s = s[:pos] + rng.choice(["*", ":", "256", "65535", "65536", "0x", "/33", ":70000", "@"]) + s[pos:]
        run.case(s, sample={"mutant": s}, sample_key=("mut", len(run.sample_keys) % 6) if len(run.sample_keys) < 30 else None)
        check_string(run, s)
    run.finish(require=("accepted", "refused", "pairs_compared", "print_parse_roundtrips", "ip_forms_checked_against_ipaddress",
                        "route_aware_pairs_compared"))


def replay(run):
    import json
    with open(run.replay_path) as f:
        w = json.load(f)["witness"]
    if "text" in w:
        check_string(run, w["text"])
    elif "spec" in w:
        spec = eval(w["spec"])
        try:
            a = build(spec)
            print("accepted:", denotes(a))
        except Exception as err:
            print("refused:", repr(err))
    run.finish()


if __name__ == "__main__":
    main_guard(main)
