"""
C04  A confirmed request ends in exactly one outcome, in bounded time, no residue.

Real client and server stacks exchange one confirmed transaction over the
fault-injecting LAN under the virtual clock; counting monitors over the
boundary log, the scheduler heap and a gc census decide (rv.txn.check_c04).
"""

from .. import common
from ..common import Run, main_guard

common.bootstrap()

from ..vclock import CLOCK
from ..txn import (Cfg, run_scenario, check_c04, outcomes_of, expected_outcome, STATE_SEEN)
from ..txn_workload import configurations, single_faults, fault_pairs, random_plans, describe_plan
from ..fnet import Plan
from bacpypes import appservice as _as

RULE = ("for each configuration (behaviour x submission path, request/response sizes on both sides of every segmentation "
        "boundary for max-APDU {50,206,480} quick / all six thorough, the sixteen segmentation-support pairs, windows 1..8, "
        "retries 0..3, asymmetric capabilities) a fault-free run records the F frames, then every single fault (drop, "
        "duplicate, delay 0.5 T_seg, delay 1.5 T_out, hold-behind-next) at every frame index, fault pairs (sampled quick, "
        "complete for F<=14 thorough), random plans with 5..60 % faults, silence from frame k on and one-way silence.  "
        "A case is (configuration, fault plan); non-trivial = the request reached the wire and the monitors evaluated it")


def fault_class(plan):
    if not plan.applied:
        return "no-fault-hit"
    kinds = sorted(set(a[1] for a in plan.applied))
    if len(plan.applied) == 1:
        return "single-" + kinds[0]
    return "multi"


def evaluate(run, label, cfg, plan, kind):
    res = run_scenario(cfg, plan)
    found = []
    check_c04(res, lambda k, d: found.append((k, d)))
    run.count("scenarios")
    outs = outcomes_of(res)
    if outs:
        run.count("outcomes_observed")
        run.seen("outcome_kinds", outs[0].get("outcome"))
    run.count("frames_observed", len(res.lan.frames))
    if res.lan.escapes:
        run.count("exceptions_escaping_a_stack", len(res.lan.escapes))
        for e in res.lan.escapes[:3]:
            run.seen("escaped_exceptions", "%s@%s" % (e["exc"], e["origin"]))
    for r in CLOCK.swallowed.records[:5]:
        run.seen("swallowed_exceptions", "%s@%s" % (r["exc"], r["origin"]))
    for k, d in found:
        ctx = {"config": cfg.describe(), "config_class": label, "plan": describe_plan(plan) if plan else None, "detail": d,
               "escapes": res.lan.escapes[:2], "swallowed": CLOCK.swallowed.records[:2]}
        run.violation(classify(k, d, res), ctx)
    return res


def classify(key, detail, res):
    """mechanism key: the monitor's finding + what the stack itself reported while failing"""
    sw = [r for r in CLOCK.swallowed.records if r["exc"]]
    esc = res.lan.escapes
    if esc:
        return "%s/escaped-%s@%s" % (key, esc[0]["exc"], (esc[0]["origin"] or "?").split(":")[1])
    if sw:
        return "%s/swallowed-%s@%s" % (key, sw[0]["exc"], (sw[0]["origin"] or "?").split(":")[1])
    return key


def main():
    run = Run("C04", "fault_enumeration", RULE, assumptions=[
        "virtual LAN and virtual clock; real sockets and wall-clock timers are not exercised",
        "bound B = (R+1) T_out + (S_req+S_rsp+2)(R+1) 4 T_seg + injected delays + T_app + think time, in virtual seconds",
        "a refusal raised by request()/request_io() at submission counts as the single outcome told to the caller"])
    if run.tier == "replay":
        return replay(run)
    thorough = run.tier == "thorough"
    if thorough and run.args.shard is None:
        run.run_shards("rv.props.c04", timeout=3400)
        return run.finish(require=("scenarios", "outcomes_observed", "single_fault_cases"))
    rng = run.rng("c04")
    idx = 0
    for label, cfg in configurations(rng, run.tier):
        idx += 1
        if not run.mine(idx):
            continue
        base = evaluate(run, label, cfg, Plan(), "fault-free")
        F = len(base.lan.frames) - base.lan.frames_before
        run.case(("ff", label, repr(sorted(cfg.describe().items()))), nontrivial=F > 0,
                 sample={"config_class": label, "config": cfg.describe(), "frames_fault_free": F,
                         "outcome": [o.get("outcome") for o in outcomes_of(base)]}, sample_key=("cfg", label))
        if F == 0:
            continue
        # every single fault on every frame (long traces: every frame up to 40, then strided)
        frames = list(range(F)) if F <= 40 or thorough else list(range(30)) + list(range(30, F, max(1, F // 20)))
        for plan in single_faults(cfg, F):
            k = next(iter(plan.table))
            if k not in frames:
                continue
            run.case(("single", idx, repr(plan.table)))
            run.count("single_fault_cases")
            evaluate(run, label, cfg, plan, "single")
        for plan in fault_pairs(cfg, F, rng, complete=(thorough and F <= 14)):
            run.case(("pair", idx, repr(plan.table)))
            run.count("fault_pair_cases")
            evaluate(run, label, cfg, plan, "pair")
        for j, plan in enumerate(random_plans(cfg, F, rng, 20 if thorough else 4)):
            run.case(("random", idx, j, run.shard[0]))
            run.count("random_plan_cases")
            evaluate(run, label, cfg, plan, "random")
    run.extra["state_transitions_seen"] = sorted("%s:%s->%s" % (r, _as.SSM.transactionLabels[a], _as.SSM.transactionLabels[b])
                                                 for r, a, b in STATE_SEEN)
    run.extra["transitions"] = len(STATE_SEEN)
    run.finish(require=("scenarios", "outcomes_observed", "single_fault_cases"))


def replay(run):
    import json
    with open(run.replay_path) as f:
        w = json.load(f)["witness"]
    cfg = Cfg(**w["config"])
    table = {}
    if w.get("plan") and w["plan"].get("table"):
        table = {int(k): tuple(v) if isinstance(v, list) else v for k, v in w["plan"]["table"].items()}
    elif w.get("plan") and w["plan"].get("applied"):
        table = {a[0]: tuple(a[1:]) for a in w["plan"]["applied"]}
    evaluate(run, w.get("config_class", "replay"), cfg, Plan(table), "replay")
    run.finish()


if __name__ == "__main__":
    main_guard(main)
