"""
C04  A confirmed request ends in exactly one outcome, in bounded time, no residue.

Real client and server stacks exchange one confirmed transaction over the
fault-injecting LAN under the virtual clock; counting monitors over the
boundary log, the scheduler heap and a gc census decide (rv.txn.check_c04).
"""

from .. import common
from ..common import Run, main_guard

common.bootstrap()

from ..vclock import CLOCK, StepBudgetExceeded
from ..txn import (Cfg, run_scenario, check_c04, outcomes_of, expected_outcome, STATE_SEEN)
from ..txn_workload import configurations, single_faults, fault_pairs, random_plans, describe_plan
from ..fnet import Plan
from bacpypes import appservice as _as

RULE = ("for each configuration (behaviour x submission path, request/response sizes on both sides of every segmentation "
        "boundary for max-APDU {50,206,480} quick / all six thorough, the sixteen segmentation-support pairs, windows 1..8, "
        "retries 0..3, asymmetric capabilities) a fault-free run records the F frames, then every single fault (drop, "
        "duplicate, delay 0.5 T_seg, delay 1.5 T_out, hold-behind-next) at every frame index, fault pairs (sampled quick, "
        "complete for F<=14 thorough), random plans with 5..60 % faults, silence from frame k on and one-way silence.  "
        "A case is (configuration, fault plan); non-trivial = the request reached the wire and the monitors evaluated it")


def fault_class(plan):
    if not plan.applied:
        return "no-fault-hit"
    kinds = sorted(set(a[1] for a in plan.applied))
    if len(plan.applied) == 1:
        return "single-" + kinds[0]
    return "multi"


def evaluate(run, label, cfg, plan, kind):
    res = run_scenario(cfg, plan)
    found = []
    check_c04(res, lambda k, d: found.append((k, d)))
    run.count("scenarios")
    outs = outcomes_of(res)
    if outs:
        run.count("outcomes_observed")
        run.seen("outcome_kinds", outs[0].get("outcome"))
    run.count("frames_observed", len(res.lan.frames))
    if res.lan.escapes:
        run.count("exceptions_escaping_a_stack", len(res.lan.escapes))
        for e in res.lan.escapes[:3]:
            run.seen("escaped_exceptions", "%s@%s" % (e["exc"], e["origin"]))
    for r in CLOCK.swallowed.records[:5]:
        run.seen("swallowed_exceptions", "%s@%s" % (r["exc"], r["origin"]))
    for k, d in found:
        ctx = {"config": cfg.describe(), "config_class": label, "plan": describe_plan(plan) if plan else None, "detail": d,
               "escapes": res.lan.escapes[:2], "swallowed": CLOCK.swallowed.records[:2]}
        run.violation(classify(k, d, res), ctx)
    return res


def classify(key, detail, res):
    """mechanism key: the monitor's finding + what the stack itself reported while failing"""
    sw = [r for r in CLOCK.swallowed.records if r["exc"]]
    esc = res.lan.escapes
    if esc:
        return "%s/escaped-%s@%s" % (key, esc[0]["exc"], (esc[0]["origin"] or "?").split(":")[1])
    if sw:
        return "%s/swallowed-%s@%s" % (key, sw[0]["exc"], (sw[0]["origin"] or "?").split(":")[1])
    return key


KNOWN_PARKED = "packets-of-a-finished-request-stay-parked-for-a-network-without-router-and-are-sent-when-one-appears"


def unreachable_network(run, rng, path, retries, announce_after):
    """a request for a station on another network while no router to that network has been heard of (its announcement is lost
    or late - within "whatever the network loses"): the requester asks who the router is, nobody answers, the request ends with
    one abort in bounded time - and nothing of it stays behind, in particular nothing that goes out when a router does turn up"""
    from ..stacks import Stack, DirectApp, IOApp, transaction_census, heap_transaction_timers
    from ..fnet import FaultNet
    from bacpypes.pdu import Address, RemoteStation, LocalBroadcast
    from bacpypes.vlan import Node
    from .. import wire as W
    CLOCK.reset()
    events = []
    lan = FaultNet("lan", Plan())
    client = Stack(lan, 1, events, "client", IOApp if path == "iocb" else DirectApp, numberOfApduRetries=retries, apduTimeout=3000, apduSegmentTimeout=2000)
    Node(Address(9), lan)                   # the station that will turn out to be the router
    CLOCK.settle()
    wit = {"config_class": "request-to-a-network-without-known-router", "path": path, "retries": retries,
           "router_announced_after": announce_after}
    token = 8801
    t0 = CLOCK.now
    try:
        client.send(client.cpt_request(RemoteStation(2, 5), token, 5), token)
        CLOCK.drive(duration=(retries + 1) * 3.0 + 5.0, max_steps=200000)
    except StepBudgetExceeded as err:
        run.violation("transaction-never-quiesces", dict(wit, error=str(err)))
        return
    except Exception as err:
        run.violation("request-to-unreachable-network-raised/" + type(err).__name__, dict(wit, error=repr(err)[:100]))
        return
    run.count("scenarios")
    run.count("requests_to_a_network_without_router")
    outs = [e for e in events if e["who"] == "client" and e["ev"] == ("iocb-callback" if path == "iocb" else "confirmation")]
    run.count("outcomes_observed", len(outs))
    if len(outs) != 1:
        run.violation("no-outcome-delivered" if not outs else "outcome-delivered-more-than-once", dict(wit, outcomes=[(round(o["t"] - t0, 2), o.get("outcome")) for o in outs]))
        return
    if outs[0]["t"] - t0 > (retries + 1) * 3.0 + 1e-6:
        run.violation("outcome-later-than-bound", dict(wit, after=outs[0]["t"] - t0, bound=(retries + 1) * 3.0))
        return
    if transaction_census() or heap_transaction_timers():
        run.violation("transaction-left-after-outcome/unreachable-network", dict(wit))
        return
    parked = {net: len(v) for net, v in client.nsap.pending_nets.items()}
    # a router announces the network (late)
    CLOCK.drive(duration=announce_after, max_steps=200000)
    n0 = len(lan.frames)
    lan.inject(Address(9), LocalBroadcast(), W.npci_build({"net_message": 0x01, "payload": b"\x00\x02"}))
    CLOCK.drive(duration=20.0, max_steps=200000)
    late = [rec for rec in lan.frames[n0:] if str(rec["src"]) == "1" and bytes([token >> 8, token & 0xFF]) in rec["octets"] or
            (str(rec["src"]) == "1" and b"\x00\x02\x01\x05" in rec["octets"][:8])]
    if parked or late:
        run.violation(KNOWN_PARKED, dict(wit, parked_after_the_outcome=parked, request_frames_sent_after_the_router_appeared=len(late),
                                         outcome=(round(outs[0]["t"] - t0, 2), outs[0].get("outcome"))))
        return
    outs2 = [e for e in events if e["who"] == "client" and e["ev"] == ("iocb-callback" if path == "iocb" else "confirmation")]
    if len(outs2) != 1:
        run.violation("outcome-delivered-more-than-once", dict(wit, outcomes=len(outs2)))


def main():
    run = Run("C04", "fault_enumeration", RULE, assumptions=[
        "virtual LAN and virtual clock; real sockets and wall-clock timers are not exercised",
        "bound B = (R+1) T_out + (S_req+S_rsp+2)(R+1) 4 T_seg + injected delays + T_app + think time, in virtual seconds",
        "a refusal raised by request()/request_io() at submission counts as the single outcome told to the caller"])
    if run.tier == "replay":
        return replay(run)
    thorough = run.tier == "thorough"
    if thorough and run.args.shard is None:
        run.run_shards("rv.props.c04", timeout=3400)
        return run.finish(require=("scenarios", "outcomes_observed", "single_fault_cases"))
    rng = run.rng("c04")
    idx = 0
    if run.shard[0] == 0:
        for path in ("direct", "iocb"):
            for retries in (0, 1, 3):
                for announce_after in (0.5, 30.0):
                    run.case(("unreachable", path, retries, announce_after), sample=None)
                    unreachable_network(run, rng, path, retries, announce_after)
    for label, cfg in configurations(rng, run.tier):
        idx += 1
        if not run.mine(idx):
            continue
        base = evaluate(run, label, cfg, Plan(), "fault-free")
        F = len(base.lan.frames) - base.lan.frames_before
        run.case(("ff", label, repr(sorted(cfg.describe().items()))), nontrivial=F > 0,
                 sample={"config_class": label, "config": cfg.describe(), "frames_fault_free": F,
                         "outcome": [o.get("outcome") for o in outcomes_of(base)]}, sample_key=("cfg", label))
        if F == 0:
            continue
        # every single fault on every frame (long traces: every frame up to 40, then strided)
        frames = list(range(F)) if F <= 40 or thorough else list(range(30)) + list(range(30, F, max(1, F // 20)))
        for plan in single_faults(cfg, F):
            k = next(iter(plan.table))
            if k not in frames:
                continue
            run.case(("single", idx, repr(plan.table)))
            run.count("single_fault_cases")
            evaluate(run, label, cfg, plan, "single")
        for plan in fault_pairs(cfg, F, rng, complete=(thorough and F <= 14)):
            run.case(("pair", idx, repr(plan.table)))
            run.count("fault_pair_cases")
            evaluate(run, label, cfg, plan, "pair")
        for j, plan in enumerate(random_plans(cfg, F, rng, 20 if thorough else 4)):
            run.case(("random", idx, j, run.shard[0]))
            run.count("random_plan_cases")
            evaluate(run, label, cfg, plan, "random")
    run.extra["state_transitions_seen"] = sorted("%s:%s->%s" % (r, _as.SSM.transactionLabels[a], _as.SSM.transactionLabels[b])
                                                 for r, a, b in STATE_SEEN)
    run.extra["transitions"] = len(STATE_SEEN)
    run.finish(require=("scenarios", "outcomes_observed", "single_fault_cases"))


def replay(run):
    import json
    with open(run.replay_path) as f:
        w = json.load(f)["witness"]
    cfg = Cfg(**w["config"])
    table = {}
    if w.get("plan") and w["plan"].get("table"):
        table = {int(k): tuple(v) if isinstance(v, list) else v for k, v in w["plan"]["table"].items()}
    elif w.get("plan") and w["plan"].get("applied"):
        table = {a[0]: tuple(a[1:]) for a in w["plan"]["applied"]}
    evaluate(run, w.get("config_class", "replay"), cfg, Plan(table), "replay")
    run.finish()


if __name__ == "__main__":
    main_guard(main)
