"""
C11  Concurrent transactions never cross: replies reach only the request they answer.

Several real client and server stacks on one virtual LAN; requests carry
unique tokens, servers answer in shuffled order after random think times
(longer than the request timeout, so genuine retransmissions occur), a
spoofing station injects forged / late / foreign replies.  Token matching and
interval-overlap tests over the recorded history decide.
"""

from .. import common
from ..common import Run, main_guard

common.bootstrap()

from ..vclock import CLOCK, StepBudgetExceeded
from ..fnet import FaultNet, Plan
from ..stacks import Stack, DirectApp, decode_frame, transaction_census
from .. import wire as W
from ..refcodec import tlv_encode, CTX, OPEN, CLOSE, APP, enc_unsigned

from bacpypes.pdu import Address

RULE = ("histories with 1..3 clients x 1..4 servers, 1..40 outstanding requests per client submitted with "
        "Application.request (no per-peer queue), think times 0..8 s against a 3 s request timeout (so retransmissions "
        "arrive while the original is being processed), equal invoke ids across clients by construction, forged replies "
        "(foreign source with a live id, right source with an id that is not live, replays after completion, stray "
        "segment-acks and aborts) injected at random instants, 300 sequential requests (counter wrap), up to 300 "
        "overlapping requests to one peer (exhaustion), application-chosen invoke ids incl. deliberate collisions.  "
        "A case is one history; non-trivial = at least two requests were live at the same time")


def cpt_ack_octets(invoke, token, payload=b"forged"):
    """an unsegmented ComplexAck for ConfirmedPrivateTransfer built with the independent encoders"""
    body = tlv_encode([(CTX, 0, 2, (999).to_bytes(2, "big")), (CTX, 1, len(enc_unsigned(token)), enc_unsigned(token)),
                       (OPEN, 2, 0, b""), (APP, 6, len(payload), payload), (CLOSE, 2, 0, b"")])
    return W.npci_build({"payload": W.apci_build({"type": W.COMPLEX_ACK, "invoke": invoke, "service": 18, "payload": body})})


class HistoryEnded(Exception):
    pass


def history(run, rng, nclients, nservers, nreq, forged, chosen_ids=False, label="mixed"):
    CLOCK.reset()
    events = []
    lan = FaultNet("lan", Plan())
    lan.frame_cap = 100000
    clients = [Stack(lan, 1 + i, events, "c%d" % i, DirectApp, retries=3, apduTimeout=3000, apduSegmentTimeout=2000,
                     maxApduLengthAccepted=rng.choice([50, 206, 1024])) for i in range(nclients)]
    servers = [Stack(lan, 20 + i, events, "s%d" % i, DirectApp, app_timeout=30000, retries=3, apduTimeout=3000, apduSegmentTimeout=2000,
                     maxApduLengthAccepted=rng.choice([50, 206, 1024])) for i in range(nservers)]
    CLOCK.settle()
    t0 = CLOCK.now
    reqs = {}          # token -> dict(client, server, invoke, t_req, size)
    token = 5000
    refused = 0
    wit = {"clients": nclients, "servers": nservers, "requests_per_client": nreq, "forged": forged, "class": label}
    pending_injections = []

    def submit(ci, c):
        nonlocal token, refused
        token += 1
        si = rng.randrange(nservers)
        s = servers[si]
        size = rng.choice([0, 5, 20, 20, 120, 400]) if label != "exhaustion" else 3
        rsize = rng.choice([0, 5, 20, 20, 120, 400]) if label != "exhaustion" else 3
        think = 0 if label == "sequential" else 8.0 if label == "exhaustion" else rng.choice([0, 0, 0.5, 2.0, 4.0, 8.0])
        s.app.behaviour[token] = ("ack", rsize, think)
        req = c.cpt_request(s.address, token, size)
        if chosen_ids and rng.random() < 0.6:
            req.apduInvokeID = rng.randrange(0, 256) if rng.random() < 0.7 else rng.choice([r["invoke"] for r in reqs.values()] or [7])
        try:
            c.send(req, token)
        except RuntimeError as err:
            refused += 1
            run.seen("submission_refusals", str(err)[:40])
            # a refusal must leave nothing on the wire for that token (checked below through the indications)
            reqs[token] = {"client": ci, "server": si, "invoke": req.apduInvokeID, "t_req": CLOCK.now, "refused": True, "rsize": rsize}
            return
        except Exception as err:
            # anything else than the documented refusal: the stack itself failed on a request it should have taken
            run.violation("submission-raised/" + type(err).__name__, dict(wit, error=repr(err)[:100], requests_so_far=len(reqs)))
            raise HistoryEnded()
        reqs[token] = {"client": ci, "server": si, "invoke": req.apduInvokeID, "t_req": CLOCK.now, "refused": False, "rsize": rsize}

    try:
        if label == "sequential":
            c = clients[0]
            for k in range(nreq):
                submit(0, c)
                CLOCK.drive(duration=0.01, max_steps=100000)
        elif label == "exhaustion":
            # everything at once toward one peer with slow answers: more requests than invoke ids
            for k in range(nreq):
                submit(0, clients[0])
        else:
            # bursts of submissions interleaved with time steps and forged frames
            remaining = [nreq] * nclients
            while any(remaining):
                ci = rng.randrange(nclients)
                if remaining[ci]:
                    for _ in range(min(remaining[ci], rng.choice([1, 1, 3, 10, 40, 300]))):
                        submit(ci, clients[ci])
                        remaining[ci] -= 1
                if forged:
                    inject_forgeries(rng, lan, clients, servers, reqs, events)
                CLOCK.drive(duration=rng.choice([0, 0, 0.2, 1.0, 3.5]), max_steps=400000)
        # let everything finish, with forged frames sprinkled in
        for _ in range(12):
            if forged:
                inject_forgeries(rng, lan, clients, servers, reqs, events)
            CLOCK.drive(duration=4.0, max_steps=400000)
        CLOCK.drive(duration=80.0, max_steps=400000)
    except StepBudgetExceeded as err:
        run.violation("history-does-not-quiesce", dict(wit, error=str(err)))
        return
    except HistoryEnded:
        return
    # ------------------------------------------------------------------ monitors
    confs = {}
    for e in events:
        if e["ev"] == "confirmation":
            confs.setdefault(e["who"], []).append(e)
    run.count("requests_submitted", len(reqs))
    run.count("submissions_refused", refused)
    live = [r for r in reqs.values() if not r["refused"]]
    # 1. every confirmation belongs to exactly one request of that client, by token
    for ci, c in enumerate(clients):
        mine = {t: r for t, r in reqs.items() if r["client"] == ci and not r["refused"]}
        seen = {}
        for e in confs.get(c.name, []):
            run.count("confirmations_matched")
            tok = e.get("token")
            if e["outcome"] != "complex-ack":
                # an abort/error carries no token: match by peer and invoke id against a live request
                cands = [t for t, r in mine.items() if r["invoke"] == e["invoke"] and str(servers[r["server"]].address) == e["peer"] and t not in seen]
                if not cands:
                    run.violation("outcome-for-no-live-request", dict(wit, outcome=e["outcome"], invoke=e["invoke"], peer=e["peer"]))
                    return
                tok = cands[0]
                seen[tok] = e
                run.violation("request-did-not-get-its-acknowledgement/" + e["outcome"], dict(wit, token=tok, reason=e.get("reason"), invoke=e["invoke"]))
                return
            if tok not in mine:
                run.violation("confirmation-carries-a-token-the-client-never-sent" if tok not in reqs else "confirmation-delivered-to-another-client",
                              dict(wit, token=tok, invoke=e["invoke"], peer=e["peer"]))
                return
            r = mine[tok]
            if tok in seen:
                run.violation("request-confirmed-twice", dict(wit, token=tok))
                return
            seen[tok] = e
            r["t_out"] = e["t"]
            if e["invoke"] != r["invoke"] or e["peer"] != str(servers[r["server"]].address):
                run.violation("reply-applied-to-another-transaction", dict(wit, token=tok, request=(r["invoke"], str(servers[r["server"]].address)),
                                                                          reply=(e["invoke"], e["peer"])))
                return
            want = len(bytes(__import__("rv.stacks", fromlist=["payload_for"]).payload_for(tok, r["rsize"])))
            if len(e.get("payload", b"")) != want:
                run.violation("confirmation-payload-of-another-request", dict(wit, token=tok, got=len(e.get("payload", b"")), want=want))
                return
        missing = [t for t in mine if t not in seen]
        if missing:
            run.violation("request-never-confirmed", dict(wit, token=missing[0], n=len(missing), invoke=mine[missing[0]]["invoke"]))
            return
    # 2. no two simultaneously live requests of one client to one peer share an invoke id
    by = {}
    for t, r in reqs.items():
        if r["refused"]:
            continue
        by.setdefault((r["client"], r["server"], r["invoke"]), []).append((r["t_req"], r.get("t_out", float("inf")), t))
    overlap = 0
    for key, ivs in by.items():
        ivs.sort()
        for (a0, a1, ta), (b0, b1, tb) in zip(ivs, ivs[1:]):
            if b0 < a1:
                run.violation("invoke-id-reused-while-live", dict(wit, client=key[0], server=key[1], invoke=key[2], tokens=[ta, tb]))
                return
    # concurrency actually achieved
    points = sorted([(r["t_req"], 1) for r in live] + [(r.get("t_out", r["t_req"]), -1) for r in live])
    cur = peak = 0
    for _, d in points:
        cur += d
        peak = max(peak, cur)
    run.counters["max_concurrent_requests"] = max(run.counters.get("max_concurrent_requests", 0), peak)
    # 3. server side: a request is handed to the application once per (peer, invoke, token)
    inds = {}
    for e in events:
        if e["ev"] == "indication" and e.get("token") is not None:
            inds.setdefault((e["who"], e["peer"], e["invoke"], e["token"]), []).append(e["t"])
    resp_t = {}
    for e in events:
        if e["ev"] == "response":
            resp_t[(e["who"], e["peer"], e["invoke"], e["token"])] = e["t"]
    for key, ts in inds.items():
        run.count("indications_checked")
        if key[3] in reqs and reqs[key[3]]["refused"]:
            run.violation("refused-request-reached-the-wire", dict(wit, token=key[3]))
            return
        if len(ts) > 1:
            done = resp_t.get(key)
            again = [t for t in ts[1:] if done is None or t <= done]
            if again:
                run.violation("retransmitted-request-handed-to-application-again-while-processing", dict(wit, token=key[3], times=[t - t0 for t in ts]))
                return
            run.count("re_executions_after_completion")
    # same invoke id from different peers at one server: both must have been served (covered by 1) - count them
    same = {}
    for (who, peer, inv, tok), ts in inds.items():
        same.setdefault((who, inv), set()).add(peer)
    run.count("equal_invoke_ids_from_different_peers", sum(1 for v in same.values() if len(v) > 1))
    # how many genuine retransmissions of a request travelled while the server was still working on it
    seen_req = {}
    for f in lan.frames:
        d = decode_frame(f)
        ap = d.get("apci") or {}
        if ap.get("type") == W.CONFIRMED and (not ap.get("seg") or ap.get("seq") == 0):
            k = (d["src"], d["dst"], ap["invoke"])
            seen_req[k] = seen_req.get(k, 0) + 1
    run.count("request_retransmissions_on_wire", sum(v - 1 for v in seen_req.values() if v > 1))
    if transaction_census():
        run.violation("transactions-left-after-history", dict(wit, n=len(transaction_census())))
        return
    run.count("histories")
    return peak


def iocb_history(run, rng, nclients, nservers, nreq):
    """the same question one layer up: requests submitted as IOCBs (queued per peer by the application) while the application
    also sends unconfirmed traffic to the same peers; every IOCB completes once, with the answer to its own request"""
    from ..stacks import IOApp
    from bacpypes.apdu import UnconfirmedPrivateTransferRequest, IAmRequest, WhoIsRequest
    CLOCK.reset()
    events = []
    lan = FaultNet("lan", Plan())
    lan.frame_cap = 100000
    clients = [Stack(lan, 1 + i, events, "c%d" % i, IOApp, retries=1, apduTimeout=3000, apduSegmentTimeout=2000) for i in range(nclients)]
    servers = [Stack(lan, 20 + i, events, "s%d" % i, DirectApp, app_timeout=30000, retries=1, apduTimeout=3000, apduSegmentTimeout=2000)
               for i in range(nservers)]
    CLOCK.settle()
    wit = {"clients": nclients, "servers": nservers, "requests_per_client": nreq, "class": "iocb"}
    reqs = {}
    token = 6000
    unconfirmed = 0
    abandoned = 0
    abandoned_active = 0
    injected = []
    try:
        remaining = [nreq] * nclients
        while any(remaining):
            ci = rng.randrange(nclients)
            c = clients[ci]
            for _ in range(min(remaining[ci], rng.choice([1, 2, 5]))):
                token += 1
                si = rng.randrange(nservers)
                servers[si].app.behaviour[token] = ("ack", rng.choice([0, 5, 50]), rng.choice([0, 0.3, 1.0, 2.0]))
                if rng.random() < 0.06:
                    # the peer answers with an acknowledgement nobody here can read: an outcome all the same, and the requests
                    # queued behind it go on
                    servers[si].app.behaviour[token] = ("unknown-ack", 0, rng.choice([0, 0.3]))
                    run.count("requests_answered_with_an_unreadable_acknowledgement")
                rq = c.cpt_request(servers[si].address, token, rng.choice([0, 5, 50]))
                if rng.random() < 0.25:
                    # the application chooses the invoke id itself (0 is an id like any other); ids in use are left alone
                    used = {r_["iocb"].args[0].apduInvokeID for r_ in reqs.values() if r_["client"] == ci}
                    free = [x for x in (0, 0, 1, 255, rng.randrange(256)) if x not in used]
                    if free:
                        rq.apduInvokeID = free[0]
                iocb = c.send(rq, token)
                reqs[token] = {"client": ci, "server": si, "t_req": CLOCK.now, "iocb": iocb}
                remaining[ci] -= 1
            # the application gives up on a request that is still waiting in the queue of its peer (another one is in flight)
            if rng.random() < 0.35:
                from bacpypes.iocb import PENDING
                waiting = [t for t, r in reqs.items() if r["iocb"].ioState == PENDING and not r.get("abandoned")]
                if waiting:
                    t = rng.choice(waiting)
                    reqs[t]["abandoned"] = True
                    reqs[t]["iocb"].abort(RuntimeError("given up"))
                    abandoned += 1
            # ... or on the one that is in flight
            if rng.random() < 0.15:
                from bacpypes.iocb import ACTIVE
                flying = [t for t, r in reqs.items() if r["iocb"].ioState == ACTIVE and not r.get("abandoned")]
                if flying:
                    t = rng.choice(flying)
                    reqs[t]["abandoned"] = "in-flight"
                    reqs[t]["iocb"].abort(RuntimeError("given up"))
                    abandoned_active += 1
                    if rng.random() < 0.5 and reqs[t]["iocb"].args[0].apduInvokeID is not None:
                        # ... and what comes back for it later is an acknowledgement that cannot be decoded
                        bad = W.npci_build({"payload": W.apci_build({"type": W.COMPLEX_ACK, "invoke": reqs[t]["iocb"].args[0].apduInvokeID,
                                                                     "service": 18, "payload": b"\x09\x01\x1a"})})
                        CLOCK.drive(duration=rng.choice([0.0, 0.2]), max_steps=200000)
                        injected.append((round(CLOCK.now - CLOCK.START, 2), reqs[t]["iocb"].args[0].apduInvokeID, reqs[t]["server"], ci))
                        reqs[t]["ended_by_injected_ack"] = True
                        lan.inject(servers[reqs[t]["server"]].address, clients[reqs[t]["client"]].address, bad)
                        CLOCK.settle()
                        run.count("late_undecodable_acknowledgements_injected")
            # unconfirmed traffic of the same application toward the same (and other) peers
            for _ in range(rng.randrange(0, 3)):
                dest = rng.choice(servers).address
                kind = rng.choice(["private", "i-am", "who-is"])
                if kind == "private":
                    u = UnconfirmedPrivateTransferRequest(vendorID=999, serviceNumber=1, destination=dest)
                elif kind == "i-am":
                    u = IAmRequest(iAmDeviceIdentifier=c.device.objectIdentifier, maxAPDULengthAccepted=1024, segmentationSupported="segmentedBoth",
                                   vendorID=999, destination=dest)
                else:
                    u = WhoIsRequest(destination=dest)
                CLOCK.drive(duration=rng.choice([0, 0.1, 0.4]), max_steps=200000)
                c.app.request(u)
                unconfirmed += 1
            CLOCK.drive(duration=rng.choice([0, 0.2, 1.0]), max_steps=200000)
        CLOCK.drive(duration=60.0 + 4.0 * nreq, max_steps=800000)
    except StepBudgetExceeded as err:
        run.violation("history-does-not-quiesce", dict(wit, error=str(err)))
        return
    except Exception as err:
        run.violation("iocb-history-raised/" + type(err).__name__, dict(wit, error=repr(err)[:120]))
        return
    run.count("iocb_requests_submitted", len(reqs))
    run.count("unconfirmed_requests_interleaved", unconfirmed)
    run.count("queued_requests_given_up", abandoned)
    run.count("requests_in_flight_given_up", abandoned_active)
    responded = {e["token"]: e["t"] for e in events if e["ev"] == "response" and e.get("token") is not None}
    done = {}
    for e in events:
        if e["ev"] == "iocb-callback":
            done.setdefault(e["token"], []).append(e)
    for tok, r in reqs.items():
        cb = done.get(tok, [])
        run.count("iocb_completions_checked")
        w = dict(wit, token=tok, completions=[(round(x["t"] - r["t_req"], 2), x["outcome"], x.get("answer_token")) for x in cb],
                 invoke=r["iocb"].args[0].apduInvokeID, error=repr(r["iocb"].ioError)[:80], submitted_at=round(r["t_req"] - CLOCK.START, 2),
                 answered_at=round(responded[tok] - CLOCK.START, 2) if tok in responded else None, injected=injected[:6])
        if len(cb) != 1:
            run.violation("iocb-completed-%s" % ("more-than-once" if cb else "never"), w)
            return
        e = cb[0]
        if r.get("abandoned") == "in-flight":
            continue                # it was on the wire already: the peer may or may not answer it; nobody is waiting any more
        if r.get("abandoned"):
            if tok in responded or e["outcome"] == "complex-ack":
                run.violation("request-given-up-while-queued-was-sent-anyway", w)
                return
            continue
        if tok in responded and e["outcome"] != "complex-ack":
            run.violation("iocb-ended-without-the-answer-the-peer-sent/" + str(e["outcome"]), w)
            return
        if e.get("answer_token") is not None and e["answer_token"] != tok and reqs.get(e["answer_token"], {}).get("ended_by_injected_ack"):
            # the harness's own unreadable acknowledgement ended that transaction before the peer had answered; the invoke id was
            # free again and the genuine answer, when it came, met whoever had it by then: same peer, same id - nothing a
            # receiver can tell apart (the assumption about forged replies with a live id, arrived at from the other side)
            run.count("genuine_answers_arriving_after_the_injected_one_had_freed_the_id")
            continue
        if e.get("answer_token") is not None and e["answer_token"] != tok:
            given_up = reqs.get(e["answer_token"], {}).get("abandoned") == "in-flight"
            run.violation("late-answer-to-a-request-given-up-in-flight-completes-the-next-request-to-that-peer" if given_up
                          else "iocb-completed-with-the-answer-to-another-request", w)
            return
        if tok in responded and e["t"] + 1e-9 < responded[tok]:
            run.violation("iocb-completed-before-its-request-was-answered", w)
            return
    # a listener that arrives after the outcome is told the outcome - it alone, the others have been told
    late = []
    for tok in rng.sample(sorted(reqs), min(len(reqs), 4)):
        n_before = sum(1 for e in events if e["ev"] == "iocb-callback" and e["token"] == tok)
        reqs[tok]["iocb"].add_callback(lambda iocb, tok=tok: late.append(tok))
        CLOCK.settle()
        n_after = sum(1 for e in events if e["ev"] == "iocb-callback" and e["token"] == tok)
        run.count("late_listeners_added")
        if n_after != n_before:
            run.violation("iocb-callbacks-repeated-when-a-callback-is-added-after-completion", dict(wit, token=tok, calls_before=n_before, calls_after=n_after))
            return
        if late.count(tok) != 1:
            run.violation("late-listener-not-told-the-outcome-once", dict(wit, token=tok, calls=late.count(tok)))
            return
    if transaction_census():
        import gc
        left = transaction_census()
        run.violation("transactions-left-after-history", dict(wit, n=len(left), left=[
            (type(x).__name__, x.state, x.invokeID, str(x.pdu_address), [type(r_).__name__ for r_ in gc.get_referrers(x)][:6]) for x in left[:3]],
            unreadable=[t for t, r_ in reqs.items() if servers[r_["server"]].app.behaviour.get(t, ("",))[0] == "unknown-ack"][:5],
            given_up_in_flight=abandoned_active))
        return
    for c in clients:
        if c.app.queue_by_address and not abandoned_active:
            # (giving up the request in flight by-passes the application's book-keeping: an idle queue object may stay behind,
            #  which is residue in the sense of C04, not a crossing)
            run.violation("iocb-queue-entry-left", dict(wit, queues=[str(k) for k in c.app.queue_by_address]))
            return
    run.count("iocb_histories")


def both_directions(run, rng):
    """two stations that are client and server to each other and, as every stack does, both start counting invoke ids at 1:
    station B has a request #k outstanding at A (A's application thinks about it) while A's own request #k to B - a segmented
    one, under way - is aborted by A.  The abort concerns A->B #k only: B's request is answered, once, and was executed once"""
    CLOCK.reset()
    events = []
    lan = FaultNet("lan", Plan())
    a = Stack(lan, 1, events, "A", DirectApp, app_timeout=30000, apduTimeout=3000, apduSegmentTimeout=2000)
    b = Stack(lan, 2, events, "B", DirectApp, app_timeout=30000, apduTimeout=3000, apduSegmentTimeout=2000)
    CLOCK.settle()
    token = 7700 + rng.randrange(100)
    think = rng.choice([1.0, 2.0])
    a.app.behaviour[token] = ("ack", rng.choice([0, 5, 50]), think)
    inv = rng.choice([1, 1, 7, 255])
    rq = b.cpt_request(a.address, token, 5)
    rq.apduInvokeID = inv
    wit = {"class": "both-directions", "invoke_id_used_in_both_directions": inv, "think": think}
    try:
        b.send(rq, token)
        CLOCK.settle()
        # A's segmented request to B with the same id gets as far as its first segment(s) ...
        stage = rng.choice(["request", "response"])
        first = W.npci_build({"der": True, "payload": W.apci_build({"type": W.CONFIRMED, "seg": True, "mor": True, "sa": True, "max_segs": 7, "max_resp": 5,
                                                                   "invoke": inv, "seq": 0, "win": 4, "service": 18, "payload": b"\x09\x01\x19\x02"})})
        lan.inject(a.address, b.address, first)
        CLOCK.drive(duration=0.2, max_steps=200000)
        # ... and is aborted by A (a client's abort: server bit clear)
        lan.inject(a.address, b.address, W.npci_build({"payload": W.apci_build({"type": W.ABORT, "srv": False, "invoke": inv, "reason": 0})}))
        CLOCK.drive(duration=30.0, max_steps=400000)
    except StepBudgetExceeded as err:
        run.violation("history-does-not-quiesce", dict(wit, error=str(err)))
        return
    run.count("both_direction_cases")
    got = [e for e in events if e["who"] == "B" and e["ev"] == "confirmation"]
    execd = [e for e in events if e["who"] == "A" and e["ev"] == "indication" and e.get("token") == token]
    wit.update(answers=[(round(e["t"] - CLOCK.START, 2), e.get("outcome")) for e in got], executed=len(execd),
               frames=[(round(f["t"] - CLOCK.START, 2), str(f["src"]), f["octets"][:8]) for f in lan.frames][:12])
    if len(got) != 1 or got[0].get("outcome") != "complex-ack" or len(execd) != 1:
        run.violation("abort-of-one-transaction-ended-another-with-the-same-invoke-id-in-the-other-direction", wit)
        return
    run.count("confirmations_matched")


def inject_forgeries(rng, lan, clients, servers, reqs, events):
    """frames that must be ignored: foreign source, id not live, replay after completion, stray acks/aborts.
    A (source, invoke id) pair that is live for the targeted client is never forged: such a frame would be
    indistinguishable from the genuine reply."""
    done = {e["token"] for e in events if e["ev"] == "confirmation" and e.get("token") is not None}
    live = [(t, r) for t, r in reqs.items() if not r["refused"] and t not in done]
    if not live:
        return

    def live_ids(ci, addr):
        return {q["invoke"] for t, q in live if q["client"] == ci and str(servers[q["server"]].address) == str(addr)}
    for _ in range(rng.randrange(1, 4)):
        tok, r = rng.choice(live)
        c = clients[r["client"]]
        s = servers[r["server"]]
        kind = rng.choice(["foreign-source", "wrong-id", "stray-segment-ack", "stray-abort", "foreign-error"])
        others = [x.address for x in servers if x is not s and r["invoke"] not in live_ids(r["client"], x.address)] + [Address(99)]
        if kind == "foreign-source":
            lan.inject(rng.choice(others), c.address, cpt_ack_octets(r["invoke"], 999999))
        elif kind == "wrong-id":
            free = [i for i in range(256) if i not in live_ids(r["client"], s.address)]
            if free:
                lan.inject(s.address, c.address, cpt_ack_octets(rng.choice(free), 999999))
        elif kind == "stray-segment-ack":
            o = W.npci_build({"payload": W.apci_build({"type": W.SEGMENT_ACK, "srv": True, "nak": rng.random() < 0.5, "invoke": r["invoke"],
                                                       "seq": rng.randrange(4), "win": rng.choice([1, 4])})})
            lan.inject(rng.choice(others), c.address, o)
        elif kind == "stray-abort":
            o = W.npci_build({"payload": W.apci_build({"type": W.ABORT, "srv": True, "invoke": r["invoke"], "reason": 0})})
            lan.inject(rng.choice(others), c.address, o)
        else:
            o = W.npci_build({"payload": W.apci_build({"type": W.ERROR, "invoke": r["invoke"], "service": 18, "payload": b"\x91\x00\x91\x00"})})
            lan.inject(rng.choice(others), c.address, o)
    # replay of genuine reply frames (late duplicates after completion) - only while that (peer, id) is not live again
    frames = [f for f in lan.frames[-200:] if str(f["src"]) in [str(s.address) for s in servers]]
    for f in rng.sample(frames, min(len(frames), rng.randrange(0, 3))):
        d = decode_frame(f)
        ap = d.get("apci", {})
        if ap.get("type") in (W.COMPLEX_ACK, W.SIMPLE_ACK) and not ap.get("seg"):
            ci = [i for i, c in enumerate(clients) if str(c.address) == d["dst"]]
            if ci and ap["invoke"] not in live_ids(ci[0], f["src"]):
                lan.inject(f["src"], f["dst"], f["octets"])
    # deliver the forged frames before anything else is submitted
    CLOCK.settle()


def main():
    run = Run("C11", "exploration", RULE, assumptions=[
        "a forged reply with the right peer address AND a live invoke id is indistinguishable from the genuine one and is not injected",
        "a request retried after the server already answered may be executed again (BACnet has no duplicate suppression "
        "across completed transactions); only re-delivery while the original is unanswered is a violation",
        "refusal of a submission (no free invoke id, id in use) = RuntimeError raised to the caller"])
    if run.tier == "replay":
        run.inconclusive_because("replay: re-run the tier with the same VERIF_SEED (histories are derived from it)")
        return run.finish()
    thorough = run.tier == "thorough"
    if thorough and run.args.shard is None:
        run.run_shards("rv.props.c11", timeout=3400)
        return run.finish(require=("histories", "confirmations_matched", "indications_checked", "equal_invoke_ids_from_different_peers",
                                   "iocb_completions_checked", "unconfirmed_requests_interleaved"))
    rng = run.rng("c11")
    n = (32000 if thorough else 300) // (run.shard[1] if thorough else 1) + 1
    for i in range(n):
        nclients = rng.choice([1, 1, 2, 3])
        nservers = rng.choice([1, 1, 2, 4])
        nreq = rng.choice([1, 5, 20, 40])
        forged = rng.random() < 0.7
        chosen = rng.random() < 0.25
        peak = history(run, rng, nclients, nservers, nreq, forged, chosen_ids=chosen, label="mixed")
        run.case(("mixed", run.shard[0], i), nontrivial=bool(peak and peak > 1),
                 sample={"clients": nclients, "servers": nservers, "requests_per_client": nreq, "forged": forged, "chosen_ids": chosen, "peak": peak},
                 sample_key=("mixed", nclients, forged))
    for i in range((6000 if thorough else 60) // (run.shard[1] if thorough else 1) + 1):
        nclients, nservers, nreq = rng.choice([1, 2]), rng.choice([1, 1, 2, 3]), rng.choice([2, 5, 12])
        run.case(("iocb", run.shard[0], i), sample={"class": "iocb", "clients": nclients, "servers": nservers, "requests_per_client": nreq},
                 sample_key=("iocb", nclients))
        iocb_history(run, rng, nclients, nservers, nreq)
    for i in range((800 if thorough else 12) // (run.shard[1] if thorough else 1) + 1):
        run.case(("both-directions", run.shard[0], i), sample={"class": "both-directions"}, sample_key=("both",))
        both_directions(run, rng)
    for i in range(2 if not thorough else 3):
        if thorough and not run.mine(i):
            continue
        peak = history(run, rng, 1, 1, 300, False, label="sequential")
        run.case(("sequential", i), sample={"class": "300 sequential requests (invoke id wrap)", "peak": peak}, sample_key=("seq",))
        peak = history(run, rng, 1, 1, 300, rng.random() < 0.5, label="exhaustion")
        run.case(("exhaustion", i), nontrivial=True, sample={"class": "300 overlapping requests to one peer", "peak": peak}, sample_key=("exh",))
    run.finish(require=("histories", "confirmations_matched", "indications_checked", "equal_invoke_ids_from_different_peers",
                                   "iocb_completions_checked", "unconfirmed_requests_interleaved"))


if __name__ == "__main__":
    main_guard(main)
