"""
C12  What is sent respects what the peer said it can accept.

The scenario runner of C04/C05 with a *limits observer* on the wire: every
frame A->B is decoded with the independent decoder and compared with what B
announced to A (header of the request being answered; I-Am handed to the
device information cache for requests).
"""

import itertools

from .. import common
from ..common import Run, main_guard

common.bootstrap()

from ..vclock import CLOCK, StepBudgetExceeded
from .. import wire as W
from ..txn import Cfg, run_scenario, outcomes_of
from ..fnet import Plan
from ..stacks import decode_frame, enc_len, size_for_encoded, payload_for

RULE = ("pairs of local and peer capabilities: max APDU in the six standard sizes on each side, max segments "
        "{unspecified(None),2,4,8,16,32,64,100}, the four segmentation-support values on each side, proposed windows "
        "{1,2,8,127}, capabilities exchanged by I-Am or not - crossed with request and response payload lengths at every "
        "resulting boundary (unsegmented limit +-2, n-segment limits +-2, max-segments limit +-1 segment).  A case is "
        "(configuration, lengths); non-trivial = at least one APDU frame was observed and compared with a limit")

SEGS = ["noSegmentation", "segmentedTransmit", "segmentedReceive", "segmentedBoth"]
MAXSEGS = [None, 2, 4, 8, 16, 32, 64, 100]
CAN_RX = ("segmentedReceive", "segmentedBoth")
CAN_TX = ("segmentedTransmit", "segmentedBoth")


def code_for(limit):
    return max(k for k, v in W.MAX_APDU.items() if v <= limit)


def check_limits(res, report, stats):
    cfg = res.cfg
    frames = res.lan.frames[res.lan.frames_before:]
    req_hdr = None                 # header of the (first segment of the) request: what the client allows for the answer
    rsp_segments = set()
    req_segmented = False
    for rec in frames:
        d = decode_frame(rec)
        ap = d.get("apci")
        if not ap:
            continue
        alen = d["apdu_len"]
        stats["frames"] = stats.get("frames", 0) + 1
        if d["src"] == "1":
            # client -> server
            if ap["type"] == W.CONFIRMED:
                if req_hdr is None or ap.get("seq", 0) == 0:
                    req_hdr = ap
                if ap["seg"]:
                    req_segmented = True
                    if not (1 <= ap["win"] <= 127):
                        report("window-out-of-range/request", {"win": ap["win"]})
                if cfg.iam:
                    stats["request_frames_compared"] = stats.get("request_frames_compared", 0) + 1
                    if alen > cfg.s_max:
                        report("request-apdu-longer-than-peer-announced/" + ("segment" if ap["seg"] else "unsegmented"),
                               {"apdu_len": alen, "peer_max_apdu": cfg.s_max, "frame": rec["n"]})
                    if ap["seg"] and cfg.s_seg not in CAN_RX:
                        report("segmented-request-to-peer-that-cannot-receive-segments", {"peer": cfg.s_seg})
            elif ap["type"] == W.SEGMENT_ACK:
                if not (1 <= ap["win"] <= 127):
                    report("window-out-of-range/segment-ack", {"win": ap["win"]})
        else:
            # server -> client
            if ap["type"] in (W.COMPLEX_ACK, W.SIMPLE_ACK, W.ERROR, W.REJECT, W.ABORT, W.SEGMENT_ACK) and req_hdr is not None:
                stats["response_frames_compared"] = stats.get("response_frames_compared", 0) + 1
                hdr_limit = W.MAX_APDU.get(req_hdr["max_resp"])
                allowed = hdr_limit
                # latitude (DESIGN C12): the finer I-Am value when it rounds to the same header code
                if cfg.iam and hdr_limit is not None and code_for(cfg.c_max) == req_hdr["max_resp"]:
                    allowed = max(hdr_limit, cfg.c_max)
                if allowed is not None and alen > allowed:
                    report("response-apdu-longer-than-request-allows/" + ("segment" if ap.get("seg") else "unsegmented"),
                           {"apdu_len": alen, "allowed": allowed, "request_max_resp_code": req_hdr["max_resp"], "frame": rec["n"]})
                if ap["type"] == W.COMPLEX_ACK and ap["seg"]:
                    rsp_segments.add(ap["seq"])
                    if not req_hdr["sa"]:
                        report("segmented-response-to-request-that-does-not-accept-one", {})
                    if not (1 <= ap["win"] <= 127):
                        report("window-out-of-range/response", {"win": ap["win"]})
                if ap["type"] == W.SEGMENT_ACK and not (1 <= ap["win"] <= 127):
                    report("window-out-of-range/segment-ack", {"win": ap["win"]})
    if req_hdr is not None and rsp_segments:
        lim = W.MAX_SEGMENTS.get(req_hdr["max_segs"])
        if lim is not None and len(rsp_segments) > lim:
            report("more-response-segments-than-request-allows", {"segments": len(rsp_segments), "allowed": lim})
    # window negotiation: actual never above proposed (from the frames themselves)
    proposed = {}
    for rec in frames:
        d = decode_frame(rec)
        ap = d.get("apci")
        if not ap:
            continue
        if ap["type"] in (W.CONFIRMED, W.COMPLEX_ACK) and ap.get("seg") and ap["seq"] == 0:
            proposed[(d["src"], ap["type"])] = ap["win"]
        if ap["type"] == W.SEGMENT_ACK:
            key = (d["dst"], W.CONFIRMED if ap["srv"] else W.COMPLEX_ACK)
            if key in proposed and 1 <= proposed[key] <= 127 and ap["win"] > proposed[key]:
                report("actual-window-above-proposed", {"actual": ap["win"], "proposed": proposed[key]})
            own = cfg.s_win if ap["srv"] else cfg.c_win
            if ap["win"] > own and 1 <= own <= 127:
                # not demanded by the statement (only "never above what the other side proposed"): recorded only
                stats["acks_granting_more_than_own_proposed_window"] = stats.get("acks_granting_more_than_own_proposed_window", 0) + 1
    return req_hdr, req_segmented, len(rsp_segments)


def feasible(cfg):
    """can request / response be sent within what the peers announced?  (model of the statement, not of the code)"""
    req_len = 4 + enc_len(cfg.token, cfg.req_size)               # unsegmented confirmed-request APDU
    rsp_len = 3 + enc_len(cfg.token, cfg.rsp_size, ack=True)     # unsegmented complex-ack APDU
    out = {}
    # request: the client knows the server's limits only through I-Am
    if cfg.iam:
        if req_len <= min(cfg.s_max, cfg.s_path or cfg.s_max):
            out["request"] = "unsegmented"
        elif cfg.c_seg in CAN_TX and cfg.s_seg in CAN_RX:
            out["request"] = "segmented"
        elif req_len <= cfg.s_max:
            out["request"] = "path-limited"    # only the recorded path limit is in the way: the statement does not say
        else:
            out["request"] = "impossible"
        if cfg.s_path and cfg.s_path < cfg.s_max and req_len > cfg.s_path and out["request"] == "segmented":
            out["request"] = "path-limited"    # more (smaller) segments than the announcement alone would need
    else:
        out["request"] = "unknown"
    # response: limits come with the request header (max-resp code of the client, SA flag, max-segs code)
    c_code_limit = W.MAX_APDU[code_for(cfg.c_max)]
    top = max(c_code_limit, cfg.c_max) if cfg.iam else c_code_limit
    if rsp_len <= c_code_limit:
        out["response"] = "unsegmented"
    elif rsp_len <= top:
        out["response"] = "either"
    elif cfg.s_seg in CAN_TX and cfg.c_seg in CAN_RX:
        seg_payload = top - 5
        nseg = -(-(rsp_len - 3) // seg_payload)
        msegs = cfg.c_maxsegs
        code = 0 if not msegs else 7 if msegs > 64 else max(k for k, v in W.MAX_SEGMENTS.items() if v is not None and v <= msegs)
        lim = W.MAX_SEGMENTS[code]
        out["response"] = "segmented" if (lim is None or nseg <= lim) else ("too-many-segments" if nseg > lim + 1 else "either")
    else:
        out["response"] = "impossible"
    if cfg.iam and cfg.c_path and cfg.c_path < top and rsp_len > cfg.c_path and out["response"] != "impossible":
        out["response"] = "path-limited"       # the server's record of the path is tighter than the request header: no demand
    return out


def evaluate(run, label, cfg):
    res = run_scenario(cfg, Plan(), extra_after=5.0)
    found = []
    stats = {}
    req_hdr, req_seg, n_rsp = check_limits(res, lambda k, d: found.append((k, d)), stats)
    for k, v in stats.items():
        run.count(k, v)
    run.count("scenarios")
    outs = outcomes_of(res)
    f = feasible(cfg)
    run.seen("feasibility_classes", "%s/%s" % (f["request"], f["response"]))
    oc = outs[0].get("outcome") if outs else None
    if res.submit_error is None:
        if not outs:
            found.append(("over-limit-message-silently-dropped" if "impossible" in f.values() or f["response"] == "too-many-segments"
                          else "no-outcome", {"feasible": f}))
        elif f["request"] == "impossible" and oc != "abort":
            found.append(("request-beyond-peer-limits-not-aborted", {"outcome": oc, "feasible": f}))
        elif f["request"] != "impossible" and f["response"] in ("impossible", "too-many-segments") and oc != "abort":
            found.append(("response-beyond-requester-limits-not-aborted", {"outcome": oc, "feasible": f}))
        elif f["request"] in ("unsegmented", "segmented") and f["response"] in ("unsegmented", "segmented") and oc != "complex-ack":
            found.append(("message-within-limits-not-delivered", {"outcome": oc, "reason": outs[0].get("reason"), "feasible": f}))
        else:
            run.count("outcomes_consistent_with_limits")
    for k, d in found:
        run.violation(k, {"config": cfg.describe(), "config_class": label, "detail": d, "swallowed": CLOCK.swallowed.records[:2],
                          "escapes": res.lan.escapes[:2]})
    return res, f


def boundary_lengths(limit_unseg, seg_payload, max_segs, token, ack):
    """payload sizes around the unsegmented limit and the k-segment limits"""
    targets = set()
    hdr = 3 if ack else 4
    for d in (-2, -1, 0, 1, 2):
        targets.add(limit_unseg - hdr + d)
        for k in (2, 3):
            targets.add(k * seg_payload + d)
        if max_segs:
            targets.add(max_segs * seg_payload + d)
            targets.add((max_segs + 1) * seg_payload + d)
    out = set([0, 5])
    for t in targets:
        if t > 0:
            s = size_for_encoded(t, token, ack)
            if s is not None:
                out.add(s)
    return sorted(out)


def main():
    run = Run("C12", "exploration", RULE, assumptions=[
        "for a response the binding limit is the max-response code of the request; the finer I-Am value is accepted in its "
        "place only when it rounds to the same code",
        "requests are judged against the peer's I-Am only when that I-Am was handed to the sender's device information cache",
        "hostile window proposals (0 or >127) from a peer are outside the quantifier",
        "when a length is within one segment of the max-segments limit either outcome is accepted (the statement does not fix "
        "how the header overhead is counted)"])
    if run.tier == "replay":
        return replay(run)
    thorough = run.tier == "thorough"
    if thorough and run.args.shard is None:
        run.run_shards("rv.props.c12", timeout=3400)
        return run.finish(require=("scenarios", "response_frames_compared", "request_frames_compared", "outcomes_consistent_with_limits"))
    rng = run.rng("c12")
    sizes = [50, 128, 206, 480, 1024, 1476]
    idx = 0
    plans = []
    # max-APDU pairs
    for cm, sm in itertools.product(sizes, sizes):
        if not thorough and rng.random() < 0.6 and cm != sm:
            continue
        for iam in ((True, False) if thorough else (rng.random() < 0.7,)):
            plans.append(("max-apdu-pair", dict(c_max=cm, s_max=sm, iam=iam, c_maxsegs=rng.choice(MAXSEGS), s_maxsegs=rng.choice(MAXSEGS),
                                                c_win=rng.choice([1, 2, 8, 127]), s_win=rng.choice([1, 2, 8, 127]))))
    # segmentation support pairs
    for cs, ss in itertools.product(SEGS, SEGS):
        for iam in (True, False):
            plans.append(("segmentation-pair", dict(c_seg=cs, s_seg=ss, c_max=rng.choice([50, 128, 206]), s_max=rng.choice([50, 128, 206]), iam=iam,
                                                    c_maxsegs=rng.choice(MAXSEGS), s_maxsegs=rng.choice(MAXSEGS))))
    # max segments
    for ms in MAXSEGS:
        for iam in (True, False):
            plans.append(("max-segments", dict(c_max=50, s_max=50, c_maxsegs=ms, s_maxsegs=rng.choice(MAXSEGS), iam=iam,
                                               c_win=rng.choice([1, 2, 8, 127]), s_win=rng.choice([1, 2, 8, 127]))))
    # windows
    for cw, sw in itertools.product([1, 2, 8, 127], repeat=2):
        plans.append(("windows", dict(c_max=50, s_max=50, c_maxsegs=64, s_maxsegs=64, c_win=cw, s_win=sw, iam=True)))
    # a path limit recorded next to the peer's announcement (DeviceInfo.maxNpduLength, filled in by the application): the
    # announcement still binds
    for sm, cm in ((50, 1476), (128, 1024), (206, 1476), (480, 1024), (1024, 50), (1476, 128), (128, 128)):
        for sp, cp in ((501, None), (None, 501), (100, 100), (1497, 1497), (60, 300)):
            if not thorough and rng.random() < 0.4:
                continue
            plans.append(("path-limit", dict(c_max=cm, s_max=sm, s_path=sp, c_path=cp, iam=True, c_maxsegs=rng.choice([None, 16, 64]),
                                             s_maxsegs=rng.choice([None, 16, 64]), c_seg=rng.choice(["segmentedBoth", "segmentedBoth", "noSegmentation"]))))
    for label, kw in plans:
        idx += 1
        if not run.mine(idx):
            continue
        base = Cfg(retries=0, **kw)
        # lengths around the boundaries that follow from the peers' announcements
        c_code_limit = W.MAX_APDU[code_for(base.c_max)]
        rsp_sizes = boundary_lengths(c_code_limit, c_code_limit - 5, base.c_maxsegs if base.c_maxsegs and base.c_maxsegs <= 64 else None, base.token, True)
        req_sizes = boundary_lengths(base.s_max, base.s_max - 6, base.s_maxsegs if base.s_maxsegs and base.s_maxsegs <= 64 else None, base.token, False)
        if base.s_path:
            req_sizes = sorted(set(req_sizes + boundary_lengths(base.s_path, base.s_path - 6, None, base.token, False)))
        if base.c_path:
            rsp_sizes = sorted(set(rsp_sizes + boundary_lengths(base.c_path, base.c_path - 5, None, base.token, True)))
        if not thorough:
            rsp_sizes = [s for i, s in enumerate(rsp_sizes) if i % 2 == idx % 2 or s < 10]
            req_sizes = [s for i, s in enumerate(req_sizes) if i % 2 == idx % 2 or s < 10]
        for rs in rsp_sizes:
            if rs > 60000:
                continue
            cfg = Cfg(retries=0, req_size=5, rsp_size=rs, **kw)
            run.case((label, "rsp", rs, repr(sorted(kw.items()))), sample={"config_class": label, "config": kw, "rsp_size": rs}, sample_key=(label, "rsp"))
            evaluate(run, label, cfg)
        for rq in req_sizes:
            if rq > 60000:
                continue
            cfg = Cfg(retries=0, req_size=rq, rsp_size=5, **kw)
            run.case((label, "req", rq, repr(sorted(kw.items()))), sample={"config_class": label, "config": kw, "req_size": rq}, sample_key=(label, "req"))
            evaluate(run, label, cfg)
    # single faults around the first segment / first acknowledgement: the window used before and after must stay within
    # what the other side granted (the C05 wire observer is reused as a second monitor of this property)
    from ..txn import check_wire
    from ..fnet import DROP, DUP, DELAY
    for cw, sw in itertools.product([1, 2, 8, 127], repeat=2):
        for direction in ("request", "response"):
            idx += 1
            if not run.mine(idx):
                continue
            kw = dict(c_max=50, s_max=50, c_maxsegs=64, s_maxsegs=64, c_win=cw, s_win=sw, iam=rng.random() < 0.5, retries=2)
            cfg0 = Cfg(req_size=400 if direction == "request" else 5, rsp_size=400 if direction == "response" else 5, **kw)
            for k in range(0, 6):
                for act in ((DROP,), (DUP,), (DELAY, 1.0)):
                    cfg = Cfg(**cfg0.describe())
                    res = run_scenario(cfg, Plan({k: act}), extra_after=5.0)
                    found = []
                    check_wire(res, lambda key, d: found.append((key, d)))
                    stats = {}
                    check_limits(res, lambda key, d: found.append((key, d)), stats)
                    run.case(("fault", direction, cw, sw, k, act[0]), sample={"config_class": "window-under-single-fault", "windows": [cw, sw], "fault": [k, act[0]]},
                             sample_key=("fault", direction))
                    run.count("window_fault_scenarios")
                    for key, d in found:
                        if key in ("more-unacknowledged-segments-than-window", "window-field-out-of-range", "actual-window-exceeds-proposed") or not key.startswith(("sequence", "single")):
                            run.violation(key + "/under-single-fault", {"config": cfg.describe(), "plan": {str(k): list(act)}, "detail": d})
    # histories in both directions between two devices that know each other through I-Am: what a peer announced must
    # not be 'improved' by traffic it sends later
    for i in range((24000 if thorough else 60) // (run.shard[1] if thorough else 1)):
        history_case(run, rng, i)
    for i in range((8000 if thorough else 200) // (run.shard[1] if thorough else 1)):
        cache_history_case(run, rng, i)
    # a peer that is not bacpypes: asymmetric windows, its own acknowledgement pace, one acknowledgement withheld
    for i in range((16000 if thorough else 250) // (run.shard[1] if thorough else 1)):
        run.case(("scripted", run.shard[0], i), sample=None)
        scripted_case(run, rng, i)
    run.finish(require=("scenarios", "response_frames_compared", "request_frames_compared", "outcomes_consistent_with_limits", "history_requests",
                        "scripted_peer_exchanges", "answer_acks_judged", "scripted_peer_answers_delivered", "cache_history_requests"))


def scripted_case(run, rng, i, params=None):
    """one transaction of a bacpypes requester with a scripted peer whose windows are its own (it may grant more for receiving
    than it proposes for sending) and that may withhold the acknowledgement of the last request segment"""
    from ..vclock import CLOCK as CK
    from ..fnet import FaultNet
    from ..stacks import Stack, DirectApp
    from ..scripted import ScriptedServerPeer, judge
    from bacpypes.apdu import IAmRequest
    from bacpypes.pdu import Address
    if params is None:
        params = dict(cw=rng.choice([1, 2, 4, 8, 16, 127]), grant=rng.choice([1, 2, 4, 8, 127]), propose=rng.choice([1, 2, 3, 4, 8]),
                      peer_max=rng.choice([50, 128, 206, 480]), c_max=rng.choice([206, 480, 1024, 1476]),
                      req=rng.choice([5, 300, 700, 1100, 2500]), rsp=rng.choice([5, 300, 700, 1500]),
                      withhold=rng.choice([None, None, "final-ack", "final-ack-late"]), ack_every=rng.choice([None, None, 1]),
                      retries=rng.choice([0, 1, 2]), grants=None)
        if rng.random() < 0.3:
            # the peer lowers (or raises) the window it grants in the middle of the request; it acknowledges every segment, so
            # that each acknowledgement lies inside the window it announces
            params["ack_every"] = rng.choice([1, 1, None])       # ... or only the last segment of each window it granted
            params["grants"] = rng.choice([[4, 2], [8, 8, 3, 1], [127, 4, 4, 1], [2, 2, 2, 6], [8, 1]])
            params["req"] = rng.choice([700, 1100, 2500])
    p = params
    CK.reset()
    lan = FaultNet("lan", Plan())
    events = []
    token = 8000 + (i % 1000)
    st = Stack(lan, 1, events, "req", DirectApp, window=p["cw"], app_timeout=3000, segmentationSupported="segmentedBoth",
               maxApduLengthAccepted=p["c_max"], maxSegmentsAccepted=None, numberOfApduRetries=p["retries"], apduTimeout=3000, apduSegmentTimeout=2000)
    seg_size = min(p["c_max"], p["peer_max"]) - 5 - rng.choice([0, 0, 7])
    peer = ScriptedServerPeer(lan, 2, p["peer_max"], p["grant"], p["propose"], seg_size, p["rsp"], token, withhold=p["withhold"], ack_every=p["ack_every"], grants=p.get("grants"))
    CK.settle()
    iam = IAmRequest(iAmDeviceIdentifier=("device", 2), maxAPDULengthAccepted=p["peer_max"], segmentationSupported="segmentedBoth", vendorID=999)
    iam.pduSource = Address(2)
    st.app.deviceInfoCache.iam_device_info(iam)
    wit = {"scripted_peer": p}
    try:
        st.send(st.cpt_request(2, token, p["req"]), token)
        CK.drive(duration=120.0, max_steps=400000)
    except StepBudgetExceeded as err:
        run.violation("exchange-with-scripted-peer-does-not-end", dict(wit, error=str(err)))
        return
    except Exception as err:
        run.violation("exchange-with-scripted-peer-raised/" + type(err).__name__, dict(wit, error=repr(err)[:120]))
        return
    run.count("scripted_peer_exchanges")
    found = []
    stats = {}
    judge(lan.frames, 1, 2, p["peer_max"], p["cw"], lambda k, d: found.append((k, d)), stats)
    for k, v in stats.items():
        run.count(k, v)
    outs = [e for e in events if e["ev"] == "confirmation" and e["who"] == "req"]
    run.seen("scripted_peer_outcomes", "%s/%s" % (p["withhold"], outs[0]["outcome"] if outs else "none"))
    if len(outs) != 1:
        found.append(("requester-got-%d-outcomes/scripted-peer" % len(outs), {}))
    elif p["withhold"] is None and outs[0]["outcome"] != "complex-ack":
        # nothing was lost or withheld, the peer acknowledged everything and stayed within what the requester can take:
        # a message that can be sent within the limits is sent
        found.append(("message-within-limits-not-delivered/scripted-peer", {"outcome": outs[0]["outcome"], "reason": outs[0].get("reason")}))
    elif outs[0]["outcome"] == "complex-ack":
        run.count("scripted_peer_answers_delivered")
        if outs[0].get("payload") != payload_for(token, p["rsp"]):
            found.append(("answer-payload-corrupted/scripted-peer", {}))
    for k, d in found:
        run.violation(k, dict(wit, detail=d, swallowed=CK.swallowed.records[:2]))


def cache_history_case(run, rng, i):
    """the requester learns about its peers from I-Ams only, and devices move: the same device announces itself from another
    address, another device takes an address over.  What is then sent to an address respects what the LAST announcement from
    that address said"""
    from ..vclock import CLOCK as CK
    from ..fnet import FaultNet
    from ..stacks import Stack, DirectApp
    from bacpypes.apdu import IAmRequest
    from bacpypes.pdu import Address
    from bacpypes.vlan import Node
    CK.reset()
    lan = FaultNet("lan", Plan())
    events = []
    st = Stack(lan, 1, events, "req", DirectApp, window=4, app_timeout=3000, segmentationSupported="segmentedBoth",
               maxApduLengthAccepted=1476, maxSegmentsAccepted=None, numberOfApduRetries=0, apduTimeout=3000, apduSegmentTimeout=2000)
    addrs = [10, 20, 30]
    for a in addrs:
        Node(Address(a), lan)           # silent stations: only what is sent to them matters
    CK.settle()
    current = {}                        # address -> (device, max apdu, segmentation) of the last I-Am heard from it
    where = {}                          # device -> address it announced from last
    hist = []
    for _ in range(rng.randrange(2, 7)):
        dev, a = rng.choice([1, 2, 3]), rng.choice(addrs)
        mx, seg = rng.choice([50, 128, 480, 1024]), rng.choice(["noSegmentation", "segmentedBoth", "segmentedReceive"])
        iam = IAmRequest(iAmDeviceIdentifier=("device", dev), maxAPDULengthAccepted=mx, segmentationSupported=seg, vendorID=999)
        iam.pduSource = Address(a)
        hist.append((dev, a, mx, seg))
        try:
            st.app.deviceInfoCache.iam_device_info(iam)
        except Exception as err:
            run.violation("filing-an-i-am-raised/" + type(err).__name__, {"i_am_history_(device, address, max, segmentation)": hist, "error": repr(err)[:100]})
            return
        old = where.get(dev)
        if old is not None and old != a and current.get(old, (None,))[0] == dev:
            del current[old]            # the device left its old address (unless somebody else announced from there since)
        where[dev] = a
        current[a] = (dev, mx, seg)
    token = 9000
    for a, (dev, mx, seg) in sorted(current.items()):
        token += 1
        n0 = len(lan.frames)
        try:
            st.send(st.cpt_request(a, token, 300), token)
            CK.drive(duration=8.0, max_steps=200000)
        except Exception as err:
            run.violation("request-after-i-am-history-raised/" + type(err).__name__, {"i_am_history_(device, address, max, segmentation)": hist, "error": repr(err)[:100]})
            return
        run.count("cache_history_requests")
        run.case(("cache-history", i, a), sample=None)
        for rec in lan.frames[n0:]:
            d = decode_frame(rec)
            ap = d.get("apci")
            if not ap or d["src"] != "1" or d["dst"] != str(a) or ap["type"] != W.CONFIRMED:
                continue
            wit = {"i_am_history_(device, address, max, segmentation)": hist, "address": a, "last_announcement_from_it": [dev, mx, seg],
                   "apdu_len": d["apdu_len"], "segmented": bool(ap["seg"])}
            if d["apdu_len"] > mx:
                run.violation("request-apdu-longer-than-the-last-announcement-from-that-address", wit)
                return
            if ap["seg"] and seg not in CAN_RX:
                run.violation("segmented-request-to-address-whose-last-announcement-said-no-segments", wit)
                return
    run.count("cache_histories")


def history_case(run, rng, i):
    """two stacks, both able to ask and to answer; capabilities exchanged by I-Am; several transactions in random directions"""
    from ..vclock import CLOCK as CK
    from ..fnet import FaultNet
    from ..stacks import Stack, DirectApp
    from ..txn import exchange_iam
    CK.reset()
    lan = FaultNet("lan", Plan())
    events = []
    caps = {}
    stacks = {}
    for addr in (1, 2):
        seg = rng.choice(SEGS)
        mx = rng.choice([50, 128, 206, 480])
        caps[str(addr)] = {"seg": seg, "max": mx}
        stacks[addr] = Stack(lan, addr, events, "d%d" % addr, DirectApp, window=rng.choice([1, 2, 8]), app_timeout=3000, segmentationSupported=seg,
                             maxApduLengthAccepted=mx, maxSegmentsAccepted=rng.choice([None, 4, 16, 64]), numberOfApduRetries=0, apduTimeout=3000,
                             apduSegmentTimeout=2000)
    CK.settle()
    exchange_iam(stacks[1], stacks[2])
    wit = {"capabilities": caps, "steps": []}
    token = 7000
    for step in range(rng.randrange(2, 6)):
        a = rng.choice([1, 2])
        b = 3 - a
        token += 1
        rq = rng.choice([5, 5, 60, 150, 400, 900])
        rp = rng.choice([5, 5, 60, 150, 400])
        stacks[b].app.behaviour[token] = ("ack", rp, 0.0)
        wit["steps"].append((a, b, rq, rp))
        n0 = len(lan.frames)
        e0 = len(events)
        try:
            stacks[a].send(stacks[a].cpt_request(b, token, rq), token)
            CK.drive(duration=40.0, max_steps=300000)
        except Exception as err:
            run.violation("history-step-raised/" + type(err).__name__, dict(wit, error=repr(err)[:100]))
            return
        run.count("history_requests")
        outs = [e for e in events[e0:] if e["ev"] == "confirmation" and e["who"] == "d%d" % a]
        # limits of the receiver b as announced in its I-Am
        over = False
        segmented = False
        for rec in lan.frames[n0:]:
            d = decode_frame(rec)
            ap = d.get("apci")
            if not ap or d["src"] != str(a) or ap["type"] != W.CONFIRMED:
                continue
            if d["apdu_len"] > caps[str(b)]["max"]:
                run.violation("request-apdu-longer-than-peer-announced/in-history", dict(wit, apdu_len=d["apdu_len"], peer_max=caps[str(b)]["max"]))
                return
            if ap["seg"]:
                segmented = True
                if caps[str(b)]["seg"] not in CAN_RX:
                    run.violation("segmented-request-to-peer-that-cannot-receive-segments/in-history", dict(wit, peer=caps[str(b)]["seg"]))
                    return
        req_len = 4 + enc_len(token, rq)
        impossible = req_len > caps[str(b)]["max"] and not (caps[str(a)]["seg"] in CAN_TX and caps[str(b)]["seg"] in CAN_RX)
        if impossible and (not outs or outs[0].get("outcome") != "abort"):
            run.violation("request-beyond-peer-limits-not-aborted/in-history", dict(wit, outcome=outs[0].get("outcome") if outs else None))
            return
        if not outs:
            run.violation("no-outcome/in-history", dict(wit))
            return
    run.case(("history", run.shard[0], i), sample={"history": wit}, sample_key=("history", i < 1))


def replay(run):
    import json
    with open(run.replay_path) as f:
        w = json.load(f)["witness"]
    evaluate(run, w.get("config_class", "replay"), Cfg(**w["config"]))
    run.finish()


if __name__ == "__main__":
    main_guard(main)
