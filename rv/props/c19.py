"""
C19  Routing knowledge stays coherent: one next hop per destination, newest wins.

Part 1: RouterInfoCache driven directly; a two-index class invariant is
evaluated after every public method and every lookup is compared with a
reference dictionary ("newest announcement wins, forget removes exactly that").
Part 2: the same kind of histories driven as real I-Am-Router-To-Network /
routed traffic / Network-Number-Is frames into a node on the virtual LAN; the
next-hop MAC of what the node then sends is compared with the reference.
"""

import itertools

from .. import common
from ..common import Run, main_guard

common.bootstrap()

from ..vclock import clock, StepBudgetExceeded
from ..hooks import class_invariant
from .. import wire as W

from bacpypes.pdu import Address, LocalStation, LocalBroadcast, RemoteStation, PDU
from bacpypes.netservice import RouterInfoCache, NetworkServiceAccessPoint, NetworkServiceElement
from bacpypes.comm import Client, bind
from bacpypes.vlan import Network, Node
from bacpypes.apdu import UnconfirmedRequestPDU
from bacpypes import npdu as N

RULE = ("Part 1: every operation sequence up to length 4 (quick) / 5 (thorough) over {learn one or two destinations, forget "
        "router, forget destination, forget destination of a router, renumber source network} on 1 source network (+1 "
        "spare number) x 2 routers x 3 destinations, and random sequences of length 300 on 2 source networks x 3 routers x "
        "4 destinations; after every operation the two-index invariant and all lookups are compared with the reference.  "
        "Part 2: random histories of I-Am-Router-To-Network, routed traffic (SADR) and Network-Number-Is frames injected "
        "into a real node; after every step a probe packet to each destination network is sent and its next hop on the "
        "wire compared.  distinct = distinct operation sequences")

CLK = clock()
INV = {"n": 0}
RUN = None


def cache_invariant(c):
    """two-index agreement of RouterInfoCache"""
    for (snet, dnet), ri in c.path_info.items():
        owner = c.routers.get(snet, {}).get(ri.address)
        if owner is not ri:
            RUN.violation("path-entry-names-a-router-that-is-not-listed", {"snet": snet, "dnet": dnet, "router": str(ri.address)})
            return
        if dnet not in ri.dnets:
            RUN.violation("path-entry-for-destination-its-router-does-not-list", {"snet": snet, "dnet": dnet, "router": str(ri.address)})
            return
    for snet, rs in c.routers.items():
        for addr, ri in rs.items():
            if ri.address != addr:
                RUN.violation("router-record-filed-under-another-address", {"snet": snet, "key": str(addr), "record": str(ri.address)})
                return
            for dnet in ri.dnets:
                if c.path_info.get((snet, dnet)) is not ri:
                    other = c.path_info.get((snet, dnet))
                    RUN.violation("router-lists-destination-without-its-path-entry", {
                        "snet": snet, "dnet": dnet, "router": str(addr), "path_entry": None if other is None else str(other.address)})
                    return


class Model:
    def __init__(self):
        self.path = {}          # (snet, dnet) -> router name

    def learn(self, snet, r, dnets):
        for d in dnets:
            self.path[(snet, d)] = r

    def forget_router(self, snet, r):
        for k in [k for k, v in self.path.items() if k[0] == snet and v == r]:
            del self.path[k]

    def forget_dest(self, snet, dnets, r=None):
        for d in dnets:
            if (snet, d) in self.path and (r is None or self.path[(snet, d)] == r):
                del self.path[(snet, d)]

    def renumber(self, old, new):
        if any(k[0] == new for k in self.path):
            return False            # renumbering onto a number in use: excluded (DESIGN C19)
        for k in [k for k in self.path if k[0] == old]:
            self.path[(new, k[1])] = self.path.pop(k)
        return True


def apply_op(cache, model, op, addrs):
    k = op[0]
    if k == "learn":
        model.learn(op[1], op[2], op[3])
        cache.update_router_info(op[1], addrs[op[2]], list(op[3]))
    elif k == "forget_router":
        model.forget_router(op[1], op[2])
        cache.delete_router_info(op[1], address=addrs[op[2]])
    elif k == "forget_dest":
        model.forget_dest(op[1], op[2])
        cache.delete_router_info(op[1], dnets=list(op[2]))
    elif k == "forget_dest_of":
        model.forget_dest(op[1], op[3], op[2])
        cache.delete_router_info(op[1], address=addrs[op[2]], dnets=list(op[3]))
    elif k == "renumber":
        if model.renumber(op[1], op[2]):
            cache.update_source_network(op[1], op[2])
        else:
            return False
    return True


def compare(run, cache, model, snets, dnets, addrs, ops):
    names = {v: k for k, v in addrs.items()}
    for s in snets:
        for d in dnets:
            ri = cache.get_router_info(s, d)
            got = None if ri is None else names.get(ri.address, str(ri.address))
            want = model.path.get((s, d))
            run.count("lookups_compared")
            if got != want:
                if want is None:
                    key = "forgotten-destination-still-routed"
                elif got is None:
                    key = "known-destination-lost"
                else:
                    key = "older-router-not-replaced" if True else ""
                run.violation(key, {"ops": [list(o) for o in ops], "snet": s, "dnet": d, "lookup": got, "expected": want})
                return False
    return True


def run_ops(run, ops, snets, dnets, addrs):
    cache = RouterInfoCache()
    model = Model()
    done = []
    for op in ops:
        try:
            if not apply_op(cache, model, op, addrs):
                continue
        except Exception as err:
            run.violation("cache-operation-raised/%s/%s" % (op[0], type(err).__name__), {"ops": [list(o) for o in done + [op]], "error": repr(err)[:120]})
            return
        done.append(op)
        run.count("operations_applied")
        cache_invariant(cache)            # also evaluated by the attached class invariant; here with the history at hand
        if not compare(run, cache, model, snets, dnets, addrs, done):
            return


def small_alphabet():
    ops = []
    for r in ("A", "B"):
        for d in (5, 6, 7):
            ops.append(("learn", 1, r, (d,)))
        ops.append(("learn", 1, r, (5, 6)))
        ops.append(("forget_router", 1, r))
        for d in (5, 6, 7):
            ops.append(("forget_dest_of", 1, r, (d,)))
    for d in (5, 6, 7):
        ops.append(("forget_dest", 1, (d,)))
    ops.append(("renumber", 1, 2))
    ops.append(("renumber", 2, 1))
    return ops


def random_ops(rng, n, snets, routers, dnets):
    ops = []
    live = list(snets)
    for _ in range(n):
        r = rng.random()
        s = rng.choice(live)
        if r < 0.45:
            k = rng.choice((1, 1, 2, 3))
            ops.append(("learn", s, rng.choice(routers), tuple(rng.sample(dnets, k))))
        elif r < 0.6:
            ops.append(("forget_router", s, rng.choice(routers)))
        elif r < 0.75:
            ops.append(("forget_dest", s, tuple(rng.sample(dnets, rng.choice((1, 2))))))
        elif r < 0.9:
            ops.append(("forget_dest_of", s, rng.choice(routers), tuple(rng.sample(dnets, rng.choice((1, 2))))))
        else:
            new = rng.choice([x for x in (1, 2, 3, 4) if x not in live])
            ops.append(("renumber", s, new))
            live[live.index(s)] = new
    return ops


# ----------------------------------------------------------------------
# Part 2: real frames into a node
# ----------------------------------------------------------------------

class Sniffer:
    def __init__(self):
        self.frames = []

    def __call__(self, name, pdu):
        self.frames.append((str(pdu.pduSource), str(pdu.pduDestination), bytes(pdu.pduData)))


class Top(Client):
    def __init__(self):
        Client.__init__(self)
        self.got = []

    def confirmation(self, pdu):
        self.got.append(pdu)


def wire_history(run, rng, steps):
    CLK.reset()
    lan = Network(name="lan1", broadcast_address=LocalBroadcast())
    sniff = Sniffer()
    lan.traffic_log = sniff
    # the node under observation: net 1 learned (not configured) so that Network-Number-Is may renumber it
    nsap = NetworkServiceAccessPoint()
    nse = NetworkServiceElement()
    bind(nse, nsap)
    node = Node(Address(1), lan)
    nsap.bind(node, net=1, address=Address(1))
    nsap.adapters[1].adapterNetConfigured = 0
    top = Top()
    bind(top, nsap)
    routers = {"A": 10, "B": 11, "C": 12}
    inj = {n: Node(Address(a), lan) for n, a in routers.items()}
    dnets = [5, 6, 7, 8]
    model = Model()
    mynet = [1]
    hist = []

    def inject(rname, octets, dest=None):
        pdu = PDU(octets, source=Address(routers[rname]), destination=dest or LocalBroadcast())
        inj[rname].indication(pdu)
        CLK.settle()

    def probe():
        """send one packet to every destination network; look at the next hop"""
        for d in dnets:
            if d in nsap.pending_nets:
                # an earlier probe is parked waiting for a router; the stack will not ask again
                pend = True
            else:
                pend = False
            del sniff.frames[:]
            req = UnconfirmedRequestPDU(8)
            req.pduData = bytearray(b"\x09" + bytes([d]))
            req.pduDestination = RemoteStation(d, 99)
            try:
                top.request(req)
                CLK.settle()
            except Exception as err:
                run.violation("sending-after-history-raised/" + type(err).__name__, {"history": hist[-10:], "dnet": d, "error": repr(err)[:100]})
                return False
            want = model.path.get((mynet[0], d))
            run.count("probes_compared")
            # frames from the node
            mine = [(dst, W.npci_parse(o)) for src, dst, o in sniff.frames if src == "1"]
            data = [(dst, f) for dst, f in mine if f["net_message"] is None]
            who = [(dst, f) for dst, f in mine if f["net_message"] == 0]
            if want is None:
                if data:
                    run.violation("traffic-sent-to-forgotten-or-unknown-router", {"history": hist[-10:], "dnet": d, "next_hop": data[0][0]})
                    return False
                if not pend and not who:
                    run.violation("no-router-discovery-for-unknown-destination", {"history": hist[-10:], "dnet": d})
                    return False
            else:
                exp = str(routers[want])
                if pend and not data:
                    # earlier probes for this network are still parked - but the node knows a router now: what is sent
                    # afterwards follows that knowledge instead of joining the queue
                    run.violation("request-parked-although-a-path-is-known", {"history": hist[-10:], "dnet": d, "known_router": exp,
                                                                              "parked": len(nsap.pending_nets.get(d, []))})
                    return False
                # (what was parked for this network while no path was known is released along with it: same next hop)
                if not data or any(dst != exp for dst, f in data) or (len(data) > 1 and not pend):
                    run.violation("traffic-follows-stale-routing-knowledge", {"history": hist[-10:], "dnet": d,
                                                                              "next_hops": [dst for dst, f in data], "expected": exp})
                    return False
                if data[0][1]["dnet"] != d:
                    run.violation("probe-carries-wrong-DNET", {"history": hist[-10:], "dnet": d, "got": data[0][1]["dnet"]})
                    return False
        return True

    for _ in range(steps):
        r = rng.random()
        rn = rng.choice(list(routers))
        if r < 0.5:
            nets = tuple(rng.sample(dnets, rng.choice((1, 1, 2, 3))))
            hist.append(("iam", rn, nets))
            inject(rn, W.npci_build(dict(net_message=1, payload=W.nlm_build(1, {"nets": nets}))))
            model.learn(mynet[0], rn, nets)
        elif r < 0.85:
            d = rng.choice(dnets)
            hist.append(("routed", rn, d))
            # an APDU (unconfirmed, service 8) arriving from station 77 on network d through router rn
            inject(rn, W.npci_build(dict(snet=d, sadr=bytes([77]), payload=b"\x10\x08")), dest=Address(1))
            model.learn(mynet[0], rn, (d,))
        else:
            new = rng.choice([x for x in (1, 2, 3) if x != mynet[0]])
            hist.append(("network-number-is", rn, new))
            # flag 0 = learned, so the node keeps accepting later corrections
            inject(rn, W.npci_build(dict(net_message=0x13, payload=W.nlm_build(0x13, {"net": new, "flag": 0}))))
            if model.renumber(mynet[0], new):
                mynet[0] = new
        run.count("frames_injected")
        cache_invariant(nsap.router_info_cache)
        if not probe():
            return
    run.count("wire_histories")


def wire_history_two_ports(run, rng, steps):
    """a node attached to two networks (an application on the first): requests for destinations without a path are parked
    behind Who-Is-Router-To-Network; the announcement that answers may arrive on either network; what was parked and what
    is sent afterwards goes out on the network of the announcing router, to that router"""
    CLK.reset()
    lans = {1: Network(name="lan1", broadcast_address=LocalBroadcast()), 2: Network(name="lan2", broadcast_address=LocalBroadcast())}
    frames = []
    for k, lan in lans.items():
        lan.traffic_log = (lambda name, pdu, k=k: frames.append((k, str(pdu.pduSource), str(pdu.pduDestination), bytes(pdu.pduData))))
    nsap = NetworkServiceAccessPoint()
    nse = NetworkServiceElement()
    bind(nse, nsap)
    nsap.bind(Node(Address(1), lans[1]), net=1, address=Address(1))
    nsap.bind(Node(Address(1), lans[2]), net=2)
    top = Top()
    bind(top, nsap)
    routers = {"A": (1, 10), "B": (1, 11), "C": (2, 12), "D": (2, 13)}
    inj = {n: Node(Address(a), lans[k]) for n, (k, a) in routers.items()}
    dnets = [5, 6, 7, 8]
    path = {}                  # (attached net, destination) -> router name (newest announcement wins)
    parked = {d: 0 for d in dnets}
    hist = []
    CLK.settle()

    def data_frames(d):
        out = []
        for k, src, dst, o in frames:
            if src != "1":
                continue
            try:
                f = W.npci_parse(o)
            except W.Malformed:
                continue
            if f["net_message"] is None and f["dnet"] == d:
                out.append((k, dst))
        return out

    for step in range(steps):
        r = rng.random()
        del frames[:]
        if r < 0.45:
            rn = rng.choice(sorted(routers))
            k, mac = routers[rn]
            nets = tuple(rng.sample(dnets, rng.choice((1, 1, 2))))
            hist.append(("iam", rn, nets))
            pdu = PDU(W.npci_build(dict(net_message=1, payload=W.nlm_build(1, {"nets": nets}))), source=Address(mac), destination=LocalBroadcast())
            inj[rn].indication(pdu)
            CLK.settle()
            for d in nets:
                path[(k, d)] = rn
                # another router credited with d on that network loses it
                got = data_frames(d)
                run.count("announcements_checked")
                if parked[d]:
                    run.count("parked_releases_checked")
                    want = [(k, str(mac))] * parked[d]
                    if sorted(got) != sorted(want):
                        run.violation("parked-traffic-not-released-to-the-announcing-router", {"history": hist[-8:], "dnet": d, "parked": parked[d],
                                                                                             "released_as_(network, next hop)": got[:6], "expected": want[:6]})
                        return
                    parked[d] = 0
                elif got:
                    run.violation("traffic-appears-without-a-request", {"history": hist[-8:], "dnet": d, "frames": got[:4]})
                    return
        else:
            d = rng.choice(dnets)
            hist.append(("send", d))
            req = UnconfirmedRequestPDU(8)
            req.pduData = bytearray(b"\x09" + bytes([d]))
            req.pduDestination = RemoteStation(d, 99)
            try:
                top.request(req)
                CLK.settle()
            except Exception as err:
                run.violation("sending-after-history-raised/" + type(err).__name__, {"history": hist[-8:], "dnet": d, "error": repr(err)[:100]})
                return
            known = {(k, str(routers[path[(k, d)]][1])) for k in (1, 2) if (k, d) in path}
            got = data_frames(d)
            run.count("probes_compared")
            if not known:
                if got:
                    run.violation("traffic-sent-to-forgotten-or-unknown-router", {"history": hist[-8:], "dnet": d, "next_hop": got[0]})
                    return
                parked[d] += 1
            elif len(got) != 1 + parked[d] or any(g not in known for g in got) or len(set(got)) != 1:
                run.violation("traffic-follows-stale-routing-knowledge/two-ports", {"history": hist[-8:], "dnet": d, "sent_as_(network, next hop)": got[:4],
                                                                                  "current_knowledge": sorted(known), "parked_before": parked[d]})
                return
            else:
                parked[d] = 0
    run.count("wire_histories_two_ports")


def main():
    global RUN
    run = RUN = Run("C19", "exploration", RULE, assumptions=[
        "reference: newest announcement for a destination wins; forgetting removes exactly the named router/destination",
        "renumbering a source network onto a number that already has routers is not generated",
        "RouterInfo.snet (an unused back reference) is not compared"])
    if run.tier == "replay":
        return replay(run)
    thorough = run.tier == "thorough"
    if thorough and run.args.shard is None:
        run.run_shards("rv.props.c19")
        run.exhaustive = True
        return run.finish(require=("operations_applied", "lookups_compared", "invariant_evaluations", "probes_compared", "parked_releases_checked"))
    engine = class_invariant(RouterInfoCache, cache_invariant, INV)
    run.extra["invariant_engine"] = engine
    rng = run.rng("c19")
    addrs = {"A": LocalStation(10), "B": LocalStation(11), "C": LocalStation(12)}
    if run.want("exhaustive"):
        ops = small_alphabet()
        maxlen = 5 if thorough else 4
        idx = 0
        for ln in range(1, maxlen + 1):
            for seq in itertools.product(ops, repeat=ln):
                idx += 1
                if not run.mine(idx):
                    continue
                if not any(o[0] == "learn" for o in seq[:-1]) and ln > 1:
                    run.evaluations += 1        # nothing is ever learned before the last step: trivial
                    continue
                run.bulk(1)
                run_ops(run, seq, (1, 2), (5, 6, 7), addrs)
        run.sample({"alphabet": [list(o) for o in ops], "all_sequences_up_to_length": maxlen})
    if run.want("random"):
        for i in range((300 if thorough else 40) // (run.shard[1] if thorough else 1) + 1):
            ops = random_ops(rng, 300, [1, 2], ["A", "B", "C"], [5, 6, 7, 8])
            run.case(("rand", tuple(ops[:30])), sample={"ops_head": [list(o) for o in ops[:6]]}, sample_key=("rand",))
            run_ops(run, ops, (1, 2, 3, 4), (5, 6, 7, 8), addrs)
    if run.want("wire"):
        for i in range((600 if thorough else 120) // (run.shard[1] if thorough else 1) + 1):
            run.case(("wire", run.shard[0], i), sample={"kind": "wire history", "steps": 25}, sample_key=("wire",))
            try:
                wire_history(run, rng, 25)
                wire_history_two_ports(run, rng, 30)
            except StepBudgetExceeded as err:
                run.violation("node-does-not-quiesce", {"error": str(err)})
    run.count("invariant_evaluations", INV["n"])
    if INV.get("monitor_errors"):
        run.inconclusive_because("invariant monitor raised: %s" % INV.get("last_monitor_error"))
    run.exhaustive = True
    run.finish(require=("operations_applied", "lookups_compared", "invariant_evaluations", "probes_compared", "parked_releases_checked") if run.only is None else ())


def replay(run):
    global RUN
    import json
    RUN = run
    with open(run.replay_path) as f:
        w = json.load(f)["witness"]
    addrs = {"A": LocalStation(10), "B": LocalStation(11), "C": LocalStation(12)}
    if "ops" in w:
        ops = [tuple(tuple(x) if isinstance(x, list) else x for x in o) for o in w["ops"]]
        run_ops(run, ops, (1, 2, 3, 4), (5, 6, 7, 8), addrs)
    else:
        run.inconclusive_because("wire history: re-run the tier with the same VERIF_SEED")
    run.finish()


if __name__ == "__main__":
    main_guard(main)
