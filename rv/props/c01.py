"""
C01  Primitive values survive encoding unchanged and are never silently altered.

Oracle: rv.refcodec (independent, from clause 20.2).  For every accepted value
of every Atomic subclass: library octets == canonical octets, decode == value,
application and context tagging, all context numbers; unrepresentable values
must be refused, never encoded to something that decodes differently.
"""

import math
import struct
import itertools

from .. import common
from ..common import Run, main_guard

common.bootstrap()

from .. import refcodec as R
from ..oracles import atomic_classes, kind_of, norm_value, enum_table, check_atomic_value

RULE = ("value pools per primitive kind (integer magnitudes +-2^(8k-1)+{-2..2}, 2^(8k)+{-2..2} for k=1..8, "
        "every enumeration name/number + unknown numbers, bit strings of every length 0..64 x 4 patterns, "
        "IEEE specials + random 32/64-bit patterns, 1024 object types x 4 instances + random words, "
        "date/time field pools, octet/character strings) crossed with every concrete Atomic subclass of "
        "primitivedata/basetypes/apdu/object and with application + context tagging; a case is "
        "(class, value, tagging, context number); distinct = distinct such tuples that produced octets or a refusal")


def int_pool(signed, rng, nrandom):
    vals = {0, 1, 2, 3, 127, 128, 255, 256}
    for k in range(1, 9):
        for d in (-2, -1, 0, 1, 2):
            vals.add((1 << (8 * k)) + d)
            vals.add((1 << (8 * k - 1)) + d)
    for _ in range(nrandom):
        vals.add(rng.getrandbits(rng.choice((7, 8, 15, 16, 23, 24, 31, 32, 33, 40, 63, 64))))
    if signed:
        vals |= {-v for v in vals} | {-1, -128, -129}
    return sorted(vals)


def real_pool(rng, nrandom):
    vals = [0.0, -0.0, 1.0, -1.0, 0.1, 1.0 / 3, 1e-50, 1.401298464324817e-45, 1.1754943508222875e-38,
            3.4028234663852886e+38, -3.4028234663852886e+38, float("inf"), float("-inf"), float("nan"),
            3.5e38, 1e39, -1e39, 1e308, 16777216.0, 16777217.0, 0.5, 255.0, 65535.5]
    for _ in range(nrandom):
        vals.append(struct.unpack(">f", struct.pack(">L", rng.getrandbits(32)))[0])
    vals += [7, -3, 2 ** 24 + 1]           # ints are accepted by the constructor
    return vals


def double_pool(rng, nrandom):
    vals = [0.0, -0.0, 1.0, -1.0, 0.1, 1.0 / 3, 5e-324, 2.2250738585072014e-308, 1.7976931348623157e308,
            float("inf"), float("-inf"), float("nan"), 1e39, 7, -3]
    for _ in range(nrandom):
        vals.append(struct.unpack(">d", struct.pack(">Q", rng.getrandbits(64)))[0])
    return vals


def octets_pool(rng, thorough):
    lens = list(range(0, 8)) + [252, 253, 254, 255, 256, 257, 300] + list(range(8, 300, 37 if not thorough else 5))
    lens += [65534, 65535, 65536, 70000]
    out = []
    for n in sorted(set(lens)):
        out.append(bytes(rng.getrandbits(8) for _ in range(n)) if n < 400 else bytes([n & 0xFF]) * n)
    out += [b"\x00", b"\xff" * 5, bytearray(b"ab")]
    return out


def chars_pool(rng, thorough):
    vals = ["", "a", "hello", "\x00", "caf\xe9", "\xff\xfe", "€", "中文", "\U0001F600 astral",
            "x" * 252, "y" * 253, "z" * 254, "w" * 65534, "v" * 65535, "\xe9" * 40000, "### unknown encoding: 1 ###"]
    for _ in range(200 if thorough else 30):
        n = rng.randrange(1, 40)
        vals.append("".join(chr(rng.choice((rng.randrange(32, 127), rng.randrange(0xA0, 0x800),
                                            rng.randrange(0x800, 0xD800), rng.randrange(0x10000, 0x10FFFF))))
                            for _ in range(n)))
    # a byte order mark is a character like any other, wherever it stands
    vals += ["\ufeff", "\ufeffAHU-3 supply fan", "a\ufeffb", "\ufeff\ufeff", "\ufffe", "\ufeff" + "x" * 253]
    # lone surrogates cannot be carried by any of the standard's character sets: they must be refused, wherever they sit
    vals += ["\ud800", "\udc80", "\udcff", "\udfff", "\udbff", "caf\udce9", "r\udce9sum\udce9 \u20ac", "\udc80" * 3, "a\ud800b", "\udcc3\udca9"]
    return vals


def bits_pool(rng, bitlen_hint=0):
    out = []
    lens = set(range(0, 65)) | {bitlen_hint, 100, 255, 256}
    for n in sorted(lens):
        out.append([0] * n)
        out.append([1] * n)
        out.append([(i & 1) for i in range(n)])
        out.append([rng.getrandbits(1) for _ in range(n)])
    return out


FIELD = [0, 1, 12, 13, 14, 31, 32, 33, 34, 99, 100, 254, 255]


def quad_pool(rng, thorough):
    out = []
    if thorough:
        out.extend(itertools.product(FIELD, repeat=4))
    else:
        for pos in range(4):
            for v in FIELD:
                for _ in range(3):
                    t = [rng.choice(FIELD) for _ in range(4)]
                    t[pos] = v
                    out.append(tuple(t))
    for bad in (256, -1, 300, 65536):
        for pos in range(4):
            t = [1, 2, 3, 4]
            t[pos] = bad
            out.append(tuple(t))
    for _ in range(200):
        out.append(tuple(rng.randrange(256) for _ in range(4)))
    return out


def objid_pool(rng, nrandom):
    out = [("vendorPump", 7), ("vendorValve", 0), ("vendorThing", 4194303), ("analogValue", 1), ("device", 4194302)]
    for t in range(1024):
        for inst in (0, 1, 0x3FFFFE, 0x3FFFFF):
            out.append((t, inst))
    for bad in ((0, 0x400000), (0, -1), (1024, 0), (-1, 0), (1023, 0x400000), (5000, 1)):
        out.append(bad)
    for _ in range(nrandom):
        w = rng.getrandbits(32)
        out.append(w)                        # ObjectIdentifier(int) form
    out += [0, 0xFFFFFFFF, 0x003FFFFF, 0x00400000, 0xFFC00000]
    out += [1 << 32, (1 << 32) + 5, -1, -5, (1 << 40) + 7, 1 << 63]      # words that do not fit: refused, not wrapped
    return out


def enum_pool(cls, rng):
    table = enum_table(cls)
    vals = list(table.keys()) + list(table.values())
    top = max(table.values()) if table else 0
    vals += [0, top + 1, 255, 256, 65535, 65536, 2 ** 32 - 1, 2 ** 32, 2 ** 32 + 7, 2 ** 40]
    vals += [rng.getrandbits(rng.choice((8, 16, 24, 32))) for _ in range(12)]
    return vals


CHARSETS = {0: "utf-8", 3: "utf_32be", 4: "utf_16be", 5: "latin_1"}


def check_received_string(run, cls, text, ctx):
    """a character string that arrived in one of the standard's character sets (so the object carries that set) is relayed:
    re-encoded as it is and through a copy (what the constructed encoders do with element.klass(value)); octets and value stay"""
    from bacpypes.primitivedata import Tag
    from bacpypes.comm import PDUData
    cname = cls.__module__ + "." + cls.__name__
    for code, codec in CHARSETS.items():
        try:
            raw = text.encode(codec)
            if raw.decode(codec) != text:
                continue
        except Exception:
            continue
        if code == 0 and len(raw) == 0 and False:
            continue
        content = bytes([code]) + raw
        octets = R.tlv_encode([(R.APP, R.CHARS, len(content), content)])
        wit = {"class": cname, "charset": code, "text": repr(text)[:80], "octets": octets[:40]}
        try:
            tag = Tag(PDUData(octets))
            got = cls(tag)
        except Exception as err:
            run.violation("received-string-refused/charset%d/%s" % (code, type(err).__name__), dict(wit, error=repr(err)[:120]))
            return
        run.case((cname, "received", code, len(text), hash(text)), sample=None)
        if got.value != text:
            run.violation("received-string-decodes-to-another-value/charset%d" % code, dict(wit, decoded=repr(got.value)[:80]))
            return
        for how, obj in (("as-received", got), ("copy", None)):
            try:
                if obj is None:
                    obj = cls(got)
                t2 = Tag()
                obj.encode(t2)
                pdu = PDUData()
                t2.encode(pdu)
                out = bytes(pdu.pduData)
                c2 = t2.app_to_context(ctx)
                pdu = PDUData()
                c2.encode(pdu)
                outc = bytes(pdu.pduData)
            except Exception as err:
                run.violation("received-string-not-relayable/%s/%s" % (how, type(err).__name__), dict(wit, error=repr(err)[:120]))
                return
            run.count("octets_compared", 2)
            run.count("received_strings_relayed")
            if out != octets or outc != R.tlv_encode([(R.CTX, ctx, len(content), content)]):
                back = None
                try:
                    back = cls(Tag(PDUData(out))).value
                except Exception as err:
                    back = "decode raised " + type(err).__name__
                run.violation(("silently-altered-value/relayed-string/%s" if back != text else "relayed-string-octets-differ/%s") % how,
                              dict(wit, produced=out[:40], decodes_to=repr(back)[:80]))
                return
            if obj.value != text:
                run.violation("copy-has-another-value/charset%d" % code, dict(wit, copy=repr(obj.value)[:80]))
                return


def check_bit_assignments(run, cls, rng):
    """a bit string changed through its item assignment (by position and, where the class names its bits, by name) with the
    values programs assign to flags - booleans, 0/1, counts, masks: every element stays one bit (the truth of what was
    assigned) and the octets are those of that bit list"""
    from bacpypes.primitivedata import Tag
    from bacpypes.comm import PDUData
    names = list(getattr(cls, "bitNames", {}) or {})
    n = getattr(cls, "bitLen", 0) or rng.choice([1, 4, 7, 8, 9, 16, 23])
    try:
        obj = cls([rng.randrange(2) for _ in range(n)])
    except Exception:
        return
    model = [int(b) for b in obj.value]
    hist = []
    for _ in range(rng.randrange(1, 6)):
        v = rng.choice([0, 1, True, False, 2, 3, 4, 255, 0, 1])
        if names and rng.random() < 0.5:
            k = rng.choice(names)
            pos = cls.bitNames[k]
        else:
            k = pos = rng.randrange(len(model))
        hist.append((k, v))
        try:
            obj[k] = v
        except Exception as err:
            run.count("refusals")
            run.seen("refusal_types", type(err).__name__)
            continue
        model[pos] = 1 if v else 0
    wit = {"class": cls.__module__ + "." + cls.__name__, "assignments": repr(hist), "value": repr(list(obj.value))[:120]}
    run.case((cls.__name__, "bit-assign", repr(hist), len(model)), sample=None)
    run.count("bit_assignment_histories")
    if [int(b) for b in obj.value] != model or any(b not in (0, 1) for b in obj.value):
        run.violation("assigned-bit-is-not-one-bit", dict(wit, expected=repr(model)[:120]))
        return
    try:
        tag = Tag()
        obj.encode(tag)
        pdu = PDUData()
        tag.encode(pdu)
        out = bytes(pdu.pduData)
    except Exception as err:
        run.violation("refused-representable-value/kind8/%s" % type(err).__name__, dict(wit, error=repr(err)[:120]))
        return
    run.count("octets_compared")
    want = R.app_tag_octets(R.BITS, model)
    if out != want:
        run.violation("silently-altered-value/kind8/after-assignment", dict(wit, octets=out[:24], expected=want[:24]))


def check_date_keywords(run):
    """the keyword form of Date: a calendar year is stored as year - 1900, which has room for 1900..2154 only (255 = any year)"""
    from bacpypes.primitivedata import Date, Tag
    from bacpypes.comm import PDUData
    for y in (1900, 1901, 1999, 2000, 2154, 2155, 2156, 2200, 1899, 255, 254, 0, 100):
        for cls in (Date,):
            run.case(("date-keyword", y), sample=None)
            expect = y - 1900 if 1900 <= y <= 2154 else y if 0 <= y <= 255 else None
            try:
                d = cls(year=y, month=6, day=15, day_of_week=255)
                tag = Tag()
                d.encode(tag)
                pdu = PDUData()
                tag.encode(pdu)
                out = bytes(pdu.pduData)
            except Exception as err:
                run.count("refusals")
                run.seen("refusal_types", type(err).__name__)
                if expect is not None:
                    run.violation("refused-representable-value/kind10/%s" % type(err).__name__, {"class": "Date", "year": y, "error": repr(err)[:100]})
                continue
            run.count("octets_compared")
            want = None if expect is None else R.app_tag_octets(R.DATE, (expect, 6, 15, 255))
            if out != want:
                run.violation("silently-altered-value/kind10/year-keyword" if expect is None or out[1] != expect else "non-canonical-octets/kind10",
                              {"class": "Date", "year": y, "octets": out, "year_octet_means": "any year" if out[1] == 255 else 1900 + out[1]})


def check_date_time_strings(run):
    """the text forms of Date and Time: what the text says is what is stored and sent, or the text is refused - a year the
    octet has no room for does not become "any year", a fraction of a second is read as a fraction"""
    from bacpypes.primitivedata import Date, Time, Tag
    from bacpypes.comm import PDUData

    def octets(obj):
        tag = Tag()
        obj.encode(tag)
        pdu = PDUData()
        tag.encode(pdu)
        return bytes(pdu.pduData)

    for y in (1900, 1999, 2000, 2024, 2154, 2155, 2156, 2200, 2411, 9999):
        for fmt in ("%d-06-15", "6/15/%d", "15-Jun-%d"):
            text = fmt % y
            run.case(("date-text", text), sample=None)
            try:
                out = octets(Date(text))
            except Exception as err:
                run.count("refusals")
                run.seen("refusal_types", type(err).__name__)
                if 1900 <= y <= 2154 and fmt == "%d-06-15":
                    run.violation("refused-representable-value/kind10/%s" % type(err).__name__, {"class": "Date", "text": text, "error": repr(err)[:100]})
                continue
            run.count("octets_compared")
            if not (1900 <= y <= 2154) or out[1] != y - 1900 or out[2:4] != bytes([6, 15]):
                run.violation("silently-altered-value/kind10/year-text", {"class": "Date", "text": text, "octets": out,
                                                                         "year_octet_means": "any year" if out[1] == 255 else 1900 + out[1]})
    # a clock reading (seconds since the epoch, a float) becomes a time of day: n hundredths past the second read as n, and the
    # hundredths stay within 0..99 however close the reading is to the next second
    for base in (1000000000, 1700000000, 2000000000, 86400 * 365 * 60):
        for n in list(range(100)) + [99.9, 99.99, 99.9999, 99.99995, 0.00001]:
            when = base + n / 100.0
            run.case(("time-now", base, n), sample=None)
            try:
                hh = Time().now(when).value[3]
            except Exception as err:
                run.violation("clock-reading-refused/" + type(err).__name__, {"when": repr(when)})
                continue
            run.count("clock_readings_compared")
            want = int(n) if n == int(n) else None
            if not (0 <= hh <= 99) or (want is not None and hh != want) or (want is None and hh not in (int(n), min(99, int(n) + 1))):
                run.violation("clock-reading-becomes-another-time/hundredths", {"when": repr(when), "hundredths_past_the_second": n, "read_as": hh})
    # a date / a time is four numbers: fewer or more cannot be sent (the receiving side refuses anything but four octets)
    for cls, kind in ((Date, 10), (Time, 11)):
        for tup in ((), (1,), (1, 2), (1, 2, 3), (1, 2, 3, 4), (1, 2, 3, 4, 5), (1, 2, 3, 4, 5, 6)):
            run.case(("date-time-tuple", cls.__name__, len(tup)), sample=None)
            try:
                out = octets(cls(tup))
            except Exception as err:
                run.count("refusals")
                run.seen("refusal_types", type(err).__name__)
                if len(tup) == 4:
                    run.violation("refused-representable-value/kind%d/%s" % (kind, type(err).__name__), {"class": cls.__name__, "value": list(tup)})
                continue
            run.count("octets_compared")
            if len(tup) != 4 or out[1:] != bytes(tup):
                run.violation("encoded-unrepresentable-value/kind%d/wrong-number-of-elements" % kind, {"class": cls.__name__, "value": list(tup), "octets": out})
    for frac, want in ((".5", 50), (".50", 50), (".05", 5), (".5", 50), (".00", 0), (".0", 0), (".99", 99), (".09", 9), (".10", 10), (".1", 10),
                       (".123", None), (".005", None), (".100", None), ("", 0)):
        text = "12:34:56" + frac
        run.case(("time-text", text), sample=None)
        try:
            out = octets(Time(text))
        except Exception as err:
            run.count("refusals")
            run.seen("refusal_types", type(err).__name__)
            if want is not None:
                run.violation("refused-representable-value/kind11/%s" % type(err).__name__, {"class": "Time", "text": text, "error": repr(err)[:100]})
            continue
        run.count("octets_compared")
        if want is None or out[1:] != bytes([12, 34, 56, want]):
            run.violation("silently-altered-value/kind11/fraction-text", {"class": "Time", "text": text, "octets": out, "hundredths_sent": out[4]})


def check_unrepresentable_context(run, cls, v):
    """tag numbers that do not fit the one-octet extended tag number: refused, never wrapped into another number"""
    from bacpypes.primitivedata import Tag
    from bacpypes.comm import PDUData
    try:
        obj = cls(v)
        tag = Tag()
        obj.encode(tag)
    except Exception:
        return
    for n in (256, 257, 270, 300, 511, 512, 65535, 65536, -1, -3, -256):      # (255 is reserved by the standard; the library passes it through unaltered)
        run.case((cls.__name__, "bad-context", n), sample=None)
        try:
            ctag = tag.app_to_context(n)
            pdu = PDUData()
            ctag.encode(pdu)
            out = bytes(pdu.pduData)
        except Exception as err:
            run.count("refusals")
            run.seen("refusal_types", type(err).__name__)
            continue
        try:
            items = R.tlv_parse(out)
            num = items[0][1] if items else None
        except Exception:
            num = "unparsable"
        run.count("octets_compared")
        if num != n:
            run.violation("context-number-silently-altered", {"class": cls.__name__, "context": n, "octets": out[:16], "decodes_to_context": repr(num)})
            return


_VENDOR = []


def vendor_classes():
    """what a vendor does with the library: an object type enumeration with names of its own and an object identifier class
    that uses it (the names have to survive like the standard ones)"""
    if not _VENDOR:
        from bacpypes.primitivedata import ObjectIdentifier, ObjectType, expand_enumerations

        class VendorObjectType(ObjectType):
            enumerations = {"vendorPump": 600, "vendorValve": 1023, "vendorThing": 128}
        expand_enumerations(VendorObjectType)

        class VendorObjectIdentifier(ObjectIdentifier):
            objectTypeClass = VendorObjectType

        # an enumeration derived from a standard one that is in use already (no expand_enumerations call: the class builds its
        # table when it is first used)
        from bacpypes.basetypes import EngineeringUnits, BinaryPV
        EngineeringUnits("degreesCelsius")
        BinaryPV("active")

        class VendorUnits(EngineeringUnits):
            enumerations = {"vendorFurlongsPerFortnight": 1000, "vendorSmoots": 65535}

        class VendorBinary(BinaryPV):
            enumerations = {"vendorTristate": 2}
        # ... and the same without any preparation: the first thing that ever happens to these classes is an identifier
        # given by a name of the vendor's
        class VendorObjectTypeUnprepared(ObjectType):
            enumerations = {"vendorPump": 600, "vendorValve": 1023, "vendorThing": 128}

        class VendorObjectIdentifierUnprepared(ObjectIdentifier):
            objectTypeClass = VendorObjectTypeUnprepared
        _VENDOR.extend([VendorObjectIdentifier, VendorUnits, VendorBinary, VendorObjectIdentifierUnprepared])
    return list(_VENDOR)


def main():
    run = Run("C01", "exploration", RULE, assumptions=[
        "struct's IEEE-754 packing is trusted as the reference for Real/Double",
        "the accepted domain of a class is what its constructor accepts for canonical Python inputs; "
        "ObjectIdentifier(int) words are drawn from 0..2^32-1 only",
        "must-encode domain: unsigned/enumerated 0..2^32-1, integer -2^31..2^31-1, floats representable in the "
        "target width; outside it either a refusal or the canonical longer form is accepted"])
    if run.tier == "replay":
        return replay(run)
    thorough = run.tier == "thorough"
    if thorough and run.args.shard is None:
        run.run_shards("rv.props.c01")
        return run.finish(require=("octets_compared", "decodes_compared", "refusals"))

    rng = run.rng("c01")
    classes = atomic_classes() + vendor_classes()
    run.extra["classes"] = len(classes)
    nrand = 4000 if thorough else 300
    ctx_edge = [0, 1, 14, 15, 16, 254]
    all_ctx = list(range(255))

    pools = {
        R.UNSIGNED: int_pool(False, rng, nrand),
        R.INTEGER: int_pool(True, rng, nrand),
        R.REAL: real_pool(rng, nrand * 3),
        R.DOUBLE: double_pool(rng, nrand * 3),
        R.OCTETS: octets_pool(rng, thorough),
        R.CHARS: chars_pool(rng, thorough),
        R.DATE: quad_pool(rng, thorough),
        R.TIME: quad_pool(rng, thorough),
        R.OBJID: objid_pool(rng, nrand * (25 if thorough else 3)),
        R.NULL: [None, ()],
        R.BOOLEAN: [True, False],
    }

    if run.shard[0] == 0:
        check_date_keywords(run)
        check_date_time_strings(run)
    rot = 0
    index = 0
    for cls in classes:
        kind = kind_of(cls)
        if kind == R.ENUM:
            values = enum_pool(cls, rng)
        elif kind == R.BITS:
            values = bits_pool(rng, getattr(cls, "bitLen", 0))
            values += [[n] for n in list(getattr(cls, "bitNames", {}))[:8]]
        else:
            values = pools[kind]
        base = cls.__module__.endswith("primitivedata") or cls in _VENDOR
        for vi, v in enumerate(values):
            index += 1
            if not run.mine(index):
                continue
            # subclasses of the big pools only get a slice (they share the code of the base class)
            if not base and kind not in (R.ENUM, R.BITS) and vi % 7 != (index % 7) and len(values) > 400:
                continue
            rot += 1
            if thorough:
                ctxs = all_ctx if (rot % 4 == 0 or len(values) < 200) else ctx_edge
            else:
                ctxs = all_ctx if rot % 97 == 0 else ctx_edge
            check_atomic_value(run, cls, v, ctxs)
            if kind == R.CHARS and isinstance(v, str) and len(v) < 300:
                check_received_string(run, cls, v, ctxs[rot % len(ctxs)])
            if vi < 3:
                check_unrepresentable_context(run, cls, v)
            if kind == R.BITS and vi < (12 if thorough else 4):
                check_bit_assignments(run, cls, rng)
    run.finish(require=("octets_compared", "decodes_compared", "refusals", "received_strings_relayed", "bit_assignment_histories"))


def replay(run):
    import json
    from ..oracles import atomic_classes
    with open(run.replay_path) as f:
        w = json.load(f)["witness"]
    cls = [c for c in atomic_classes() if c.__module__ + "." + c.__name__ == w["class"]][0]
    v = eval(w["value_repr"], {"nan": float("nan"), "inf": float("inf"), "bytearray": bytearray})
    check_atomic_value(run, cls, v, [w.get("context", 0)] if w.get("context") is not None else [0])
    run.finish()


if __name__ == "__main__":
    main_guard(main)
