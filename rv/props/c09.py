"""
C09  BACnet/IP frames carry a correct length and round-trip all twelve functions.

Oracle: rv.wire.bvlc_build / bvlc_parse (Annex J.2).  Frames are produced and
consumed through the real AnnexJCodec, bound between two capture elements.
"""

import itertools
import struct

from .. import common
from ..common import Run, main_guard

common.bootstrap()

from .. import wire as W

from bacpypes.comm import Client, Server, bind
from bacpypes.pdu import PDU, Address
from bacpypes.errors import DecodingError, EncodingError
from bacpypes import bvll as B
from bacpypes.bvllservice import AnnexJCodec

RULE = ("the twelve BVLL functions with tables of 0..40 entries, payload lengths 0..1497, IPv4/port/mask boundary values, "
        "result codes, TTLs - each sent through AnnexJCodec.indication, octets compared with the Annex-J reference "
        "(type 0x81, function, length == datagram length) and fed back through AnnexJCodec.confirmation; inbound: "
        "function codes 0..255, every length-field value len+-{1,2,256}, wrong type octets, all octet strings of length "
        "<=2 and all 4-octet headers with first octet in {0x81,0x80,0x00} (thorough: all of length<=3 plus those), "
        "truncation/substitution/insertion mutants of valid frames")

IPS = ["0.0.0.0", "1.2.3.4", "10.0.0.255", "127.0.0.1", "192.168.255.1", "255.255.255.255", "128.0.0.0"]
PORTS = [0, 1, 47807, 47808, 47823, 47824, 65535]
MASKS = [0, 0x80000000, 0xFFFFFF00, 0xFFFFFFFE, 0xFFFFFFFF, 0x00FFFFFF]


class Top(Client):
    def __init__(self):
        Client.__init__(self)
        self.got = []

    def confirmation(self, pdu):
        self.got.append(pdu)


class Bottom(Server):
    def __init__(self):
        Server.__init__(self)
        self.sent = []

    def indication(self, pdu):
        self.sent.append(pdu)


TOP, CODEC, BOTTOM = Top(), AnnexJCodec(), Bottom()
bind(TOP, CODEC, BOTTOM)


def addr(ip, port, mask=None):
    a = Address((ip, port))
    if mask is not None:
        a.addrMask = mask
    return a


def build(func, p):
    if func == 0x00:
        return B.Result(p["code"])
    if func == 0x01:
        return B.WriteBroadcastDistributionTable([addr(*e) for e in p["bdt"]])
    if func == 0x02:
        return B.ReadBroadcastDistributionTable()
    if func == 0x03:
        return B.ReadBroadcastDistributionTableAck([addr(*e) for e in p["bdt"]])
    if func == 0x04:
        return B.ForwardedNPDU(addr(*p["addr"]), p["npdu"])
    if func == 0x05:
        return B.RegisterForeignDevice(p["ttl"])
    if func == 0x06:
        return B.ReadForeignDeviceTable()
    if func == 0x07:
        ents = []
        for ip, port, ttl, rem in p["fdt"]:
            e = B.FDTEntry()
            e.fdAddress, e.fdTTL, e.fdRemain = addr(ip, port), ttl, rem
            ents.append(e)
        return B.ReadForeignDeviceTableAck(ents)
    if func == 0x08:
        return B.DeleteForeignDeviceTableEntry(addr(*p["addr"]))
    return {0x09: B.DistributeBroadcastToNetwork, 0x0A: B.OriginalUnicastNPDU, 0x0B: B.OriginalBroadcastNPDU}[func](p["npdu"])


def params_of(msg):
    """parameters of a decoded library message in the reference's vocabulary"""
    f = msg.bvlciFunction
    p = {"func": f}
    if f == 0x00:
        p["code"] = msg.bvlciResultCode
    elif f in (0x01, 0x03):
        p["bdt"] = [tuple(a.addrTuple) + (a.addrMask,) for a in msg.bvlciBDT]
    elif f == 0x04:
        p["addr"] = tuple(msg.bvlciAddress.addrTuple)
        p["npdu"] = bytes(msg.pduData)
    elif f == 0x05:
        p["ttl"] = msg.bvlciTimeToLive
    elif f == 0x07:
        p["fdt"] = [tuple(e.fdAddress.addrTuple) + (e.fdTTL, e.fdRemain) for e in msg.bvlciFDT]
    elif f == 0x08:
        p["addr"] = tuple(msg.bvlciAddress.addrTuple)
    elif f in (0x09, 0x0A, 0x0B):
        p["npdu"] = bytes(msg.pduData)
    return p


def ref_params(func, p):
    q = {"func": func}
    for k, v in p.items():
        if k in ("bdt", "fdt"):
            q[k] = [tuple(e) for e in v]
        elif k == "addr":
            q[k] = tuple(v)
        else:
            q[k] = v
    return q


def cases(rng, thorough):
    for code in (0, 0x10, 0x20, 0x30, 0x40, 0x50, 0x60, 1, 255, 256, 65535, 65536, 0x12345, -1):
        yield 0x00, {"code": code}
    sizes = list(range(0, 41)) if thorough else [0, 1, 2, 3, 10, 39, 40]
    for func in (0x01, 0x03):
        for k in sizes:
            yield func, {"bdt": [(rng.choice(IPS), rng.choice(PORTS), rng.choice(MASKS)) for _ in range(k)]}
        for ip, port, mask in itertools.product(IPS, PORTS, MASKS):
            yield func, {"bdt": [(ip, port, mask)]}
    yield 0x02, {}
    yield 0x06, {}
    lens = sorted(set([0, 1, 2, 3, 4, 5, 250, 251, 252, 253, 254, 255, 256, 257, 1024, 1490, 1491, 1496, 1497] +
                      (list(range(0, 1498, 13)) if thorough else [])))
    for ln in lens:
        data = bytes((i * 7 + ln) & 0xFF for i in range(ln))
        for func in (0x09, 0x0A, 0x0B):
            yield func, {"npdu": data}
        yield 0x04, {"addr": (rng.choice(IPS), rng.choice(PORTS)), "npdu": data}
    for ip, port in itertools.product(IPS, PORTS):
        yield 0x04, {"addr": (ip, port), "npdu": b"\x01\x00"}
        yield 0x08, {"addr": (ip, port)}
    for ttl in (0, 1, 30, 255, 256, 65534, 65535, 65536, 70000):
        yield 0x05, {"ttl": ttl}
    yield 0x07, {"fdt": [("10.0.0.1", 47808, 65535, 65540)]}       # what a BBMD holds for a registration with TTL 65535 (TTL + 5)
    yield 0x07, {"fdt": [("10.0.0.1", 47808, 65536, 1)]}
    for k in sizes:
        yield 0x07, {"fdt": [(rng.choice(IPS), rng.choice(PORTS), rng.choice([0, 1, 300, 65535]), rng.choice([0, 1, 330, 65535]))
                             for _ in range(k)]}


def check_outbound(run, func, p):
    wit = {"function": func, "params": repr(p)[:200]}
    try:
        want = W.bvlc_build(func, W.bvlc_body(func, p))
    except struct.error:
        want = None                 # a parameter that does not fit its field: the frame cannot be built
    del BOTTOM.sent[:]
    try:
        msg = build(func, p)
        CODEC.indication(msg)
    except Exception as err:
        if want is None:
            run.count("unrepresentable_parameters_refused")
            return None
        run.violation("bvll-encode-raised/func%d/%s" % (func, type(err).__name__), dict(wit, error=repr(err)[:120]))
        return None
    if want is None:
        got = bytes(BOTTOM.sent[0].pduData) if BOTTOM.sent else b""
        run.violation("parameter-that-does-not-fit-its-field-encoded/func%d" % func, dict(wit, frame=got[:24]))
        return None
    if len(BOTTOM.sent) != 1:
        run.violation("codec-sent-%d-frames" % len(BOTTOM.sent), wit)
        return None
    got = bytes(BOTTOM.sent[0].pduData)
    run.count("frames_emitted")
    # the clause the statement spells out: 0x81, function, length == total
    if len(got) < 4 or got[0] != 0x81 or got[1] != func or struct.unpack(">H", got[2:4])[0] != len(got):
        run.violation("emitted-frame-header-or-length-wrong/func%d" % func, dict(wit, head=got[:8], total=len(got)))
        return None
    if got != want:
        k = next((i for i in range(min(len(got), len(want))) if got[i] != want[i]), min(len(got), len(want)))
        run.violation("emitted-frame-differs/func%d" % func, dict(wit, at=k, got=got[max(0, k - 4):k + 8], want=want[max(0, k - 4):k + 8]))
        return None
    # a message object is sent more than once (a BBMD sends one Forwarded-NPDU to every peer and foreign device): every
    # sending is the same frame
    del BOTTOM.sent[:]
    try:
        CODEC.indication(msg)
        again = bytes(BOTTOM.sent[0].pduData) if BOTTOM.sent else None
    except Exception as err:
        again = "raised " + type(err).__name__
    run.count("messages_encoded_twice")
    if again != got:
        run.violation("second-encoding-of-a-message-differs/func%d" % func, dict(wit, first=got[:24], second=again[:24] if isinstance(again, bytes) else again))
        return None
    return got


HELD = []          # (message object, its parameters when it was delivered): messages are looked at again after later traffic


def hold(run, msg):
    """every message delivered earlier still says what it said when it was delivered"""
    for m, snap in HELD:
        run.count("held_messages_rechecked")
        now = params_of(m)
        if now != snap:
            run.violation("delivered-message-changed-by-later-traffic/func%d" % snap["func"],
                          {"was": repr(snap)[:200], "now": repr(now)[:200], "after_decoding": repr(params_of(msg))[:200]})
            del HELD[:]
            return
    HELD.append((msg, params_of(msg)))
    if len(HELD) > 12:
        del HELD[0]


def check_staged(run, func, p, rng):
    """the same message built the other ways the API allows (empty then filled, on a list that grows afterwards, a received
    one extended and sent again, default-constructed): whatever leaves the codec has a correct length field and the current
    parameters - or the codec refuses"""
    key = {0x01: "bdt", 0x03: "bdt", 0x07: "fdt"}.get(func)
    cls = B.bvl_pdu_types[func]
    full = build(func, p)
    variants = []
    if key:
        attr = "bvlciBDT" if key == "bdt" else "bvlciFDT"
        items = list(getattr(full, attr))

        def empty_then_assigned():
            m = cls()
            setattr(m, attr, list(items))
            return m, p

        def live_list_grows():
            lst = list(items[:len(items) // 2])
            m = cls(lst)
            lst.extend(items[len(items) // 2:])
            return m, p

        def received_then_extended():
            o = W.bvlc_build(func, W.bvlc_body(func, {key: p[key][:len(p[key]) // 2]}))
            st, m = feed(o)
            if st != "ok":
                return None, None
            getattr(m, attr).extend(items[len(items) // 2:])
            return m, p

        def default_constructed():
            return cls(), {key: []}
        # (appending to the table of a message constructed without arguments is not done: the constructors' default argument
        #  is one shared list, a Python aliasing hazard of the API that is outside the statement)
        variants = [empty_then_assigned, live_list_grows, received_then_extended, default_constructed]
    elif func in (0x02, 0x06):
        variants = [lambda: (cls(), {})]
    elif func in (0x09, 0x0A, 0x0B):
        def payload_afterwards():
            m = cls()
            m.pduData = bytearray(p["npdu"])
            return m, p

        def stale_shorter_length():
            m = cls(p["npdu"])
            m.bvlciLength = max(0, m.bvlciLength - rng.choice([1, 2, 4]))
            return m, p
        variants = [payload_afterwards, stale_shorter_length]
    for fn in variants:
        try:
            m, q = fn()
        except Exception as err:
            run.count("staged_construction_refused")
            continue
        if m is None:
            continue
        del BOTTOM.sent[:]
        run.case((func, "staged", fn.__name__, repr(p)[:80]), sample=None)
        try:
            CODEC.indication(m)
        except Exception as err:
            run.count("staged_messages_refused")
            run.seen("staged_refusal_types", type(err).__name__)
            continue
        if len(BOTTOM.sent) != 1:
            continue
        got = bytes(BOTTOM.sent[0].pduData)
        run.count("staged_frames_emitted")
        wit = {"function": func, "params": repr(q)[:160], "built": fn.__name__, "head": got[:8], "total": len(got)}
        if len(got) < 4 or got[0] != 0x81 or got[1] != func or struct.unpack(">H", got[2:4])[0] != len(got):
            run.violation("emitted-frame-header-or-length-wrong/staged/%s" % fn.__name__, wit)
            return
        want = W.bvlc_build(func, W.bvlc_body(func, q))
        if got != want:
            run.violation("emitted-frame-differs/staged/%s" % fn.__name__, dict(wit, want=want[:24]))
            return


def feed(octets):
    del TOP.got[:]
    try:
        CODEC.confirmation(PDU(octets))
    except DecodingError:
        return "DecodingError", None
    except Exception as err:
        return type(err).__name__, None
    if len(TOP.got) != 1:
        return "delivered-%d" % len(TOP.got), None
    return "ok", TOP.got[0]


def check_roundtrip(run, func, p, octets):
    st, msg = feed(octets)
    wit = {"function": func, "params": repr(p)[:200]}
    if st != "ok":
        run.violation("own-frame-not-decodable/func%d/%s" % (func, st), wit)
        return
    run.count("frames_roundtripped")
    hold(run, msg)
    want_cls = B.bvl_pdu_types.get(func)
    if type(msg) is not want_cls:
        run.violation("function-registry-wrong/func%d" % func, wit)
        return
    got = params_of(msg)
    if got != ref_params(func, p):
        run.violation("bvll-roundtrip-differs/func%d" % func, dict(wit, decoded=repr(got)[:200]))


MUST_REFUSE = ("short", "type", "length")


def check_inbound(run, o):
    try:
        ref = W.bvlc_parse(o)
        why = None
    except W.Malformed as e:
        ref = None
        why = str(e).split()[0]
    st, msg = feed(o)
    wit = {"octets": o[:40], "len": len(o)}
    if st == "ok":
        run.count("inbound_delivered")
        if ref is None:
            if why in MUST_REFUSE:
                run.violation("frame-with-wrong-%s-delivered" % why, wit)
            elif why == "function":
                run.violation("unknown-function-delivered", wit)
            else:
                run.count("lenient_body_accepted")
            return
        got = params_of(msg)
        want = {k: v for k, v in ref.items() if k not in ("length", "body")}
        if got != want:
            run.violation("inbound-parameters-differ/func%d" % ref["func"], dict(wit, got=repr(got)[:160], want=repr(want)[:160]))
        return
    if st.startswith("delivered-"):
        run.violation("codec-" + st, wit)
        return
    run.count("inbound_refused")
    run.seen("refusal_exception_types", st)
    if ref is not None:
        run.violation("valid-frame-refused/func%d/%s" % (ref["func"], st), wit)
    elif why in MUST_REFUSE and st != "DecodingError":
        run.violation("refusal-is-not-a-decoding-error/%s/%s" % (why, st), wit)


def check_loopback(run, rng):
    """the same frames through a real UDP socket on the loopback interface and the library's UDPDirector below the codec: a
    datagram arrives whole (a Forwarded-NPDU is up to 1507 octets), and one that is longer than its length field says is
    refused like anywhere else.  Wall-clock bounded; when no socket can be bound this section is skipped and says so"""
    import socket
    import time
    import asyncore
    from bacpypes.bvllservice import UDPMultiplexer
    from bacpypes import core
    director = None
    for port in (47999, 48123, 50111, 51999):
        try:
            director = UDPMultiplexer(Address("127.0.0.1:%d" % port), noBroadcast=True)
            break
        except Exception as err:
            run.seen("loopback_bind_errors", type(err).__name__)
    if director is None:
        run.count("loopback_unavailable")
        return
    top, codec = Top(), AnnexJCodec()
    bind(top, codec, director.annexJ)
    sock = socket.socket(socket.AF_INET, socket.SOCK_DGRAM)
    try:
        sock.bind(("127.0.0.1", 0))
        cases = []
        for ln in (0, 1, 1400, 1490, 1491, 1492, 1493, 1496, 1497):
            data = bytes((i * 11 + ln) & 0xFF for i in range(ln))
            cases.append((0x04, {"addr": ("10.1.2.3", 47808), "npdu": data}))
            cases.append((rng.choice([0x09, 0x0A, 0x0B]), {"npdu": data}))
        cases.append((0x03, {"bdt": [("10.0.0.%d" % k, 47808, 0xFFFFFFFF) for k in range(40)]}))
        sent = []
        for func, p in cases:
            o = W.bvlc_build(func, W.bvlc_body(func, p))
            sock.sendto(o, ("127.0.0.1", port))
            sent.append((func, p, o, True))
        # over-long datagrams whose length field is smaller than the datagram: not a frame
        for ln, extra in ((1497, 1), (1497, 40), (100, 2)):
            o = W.bvlc_build(0x0A, bytes(ln)) + bytes(extra)
            sock.sendto(o, ("127.0.0.1", port))
            sent.append((0x0A, None, o, False))
        t0 = time.time()
        want_n = sum(1 for x in sent if x[3])
        while time.time() - t0 < 3.0 and len(top.got) < want_n:
            asyncore.loop(timeout=0.02, count=1)
            core.run_once()
        time.sleep(0.05)
        asyncore.loop(timeout=0.02, count=1)
        core.run_once()
    finally:
        sock.close()
        director.close_socket()
    run.count("loopback_datagrams_sent", len(sent))
    got = [params_of(m) for m in top.got]
    wants = [ref_params(func, p) for func, p, o, ok in sent if ok]
    run.count("loopback_frames_delivered", len(got))
    run.case(("loopback", len(sent)), sample={"loopback_datagram_sizes": sorted({len(o) for f, p, o, ok in sent})})
    if got != wants:
        missing = [(w["func"], len(w.get("npdu", b""))) for w in wants if w not in got]
        extra = [(g["func"], len(g.get("npdu", b""))) for g in got if g not in wants]
        if extra and not missing:
            run.violation("frame-with-wrong-length-delivered/udp", {"delivered_(function, payload octets)": extra[:4]})
        else:
            run.violation("datagram-not-delivered-whole/udp", {"missing_(function, payload octets)": missing[:6], "unexpected": extra[:4]})


def main():
    run = Run("C09", "exploration", RULE, assumptions=[
        "rv/wire.py bvlc_build/bvlc_parse transcribe Annex J.2.1-J.2.12",
        "a frame with an unknown function code must not be delivered upward; which exception refuses it is not "
        "prescribed by the statement (KeyError is observed and recorded)",
        "a body that is longer than its function needs (e.g. a Result with 3 octets) may be accepted or refused"])
    if run.tier == "replay":
        return replay(run)
    thorough = run.tier == "thorough"
    if thorough and run.args.shard is None:
        run.run_shards("rv.props.c09")
        run.exhaustive = True
        return run.finish(require=("frames_emitted", "frames_roundtripped", "inbound_refused", "inbound_delivered", "held_messages_rechecked",
                                   "staged_messages_refused"))
    rng = run.rng("c09")
    idx = 0
    valid = []
    for func, p in cases(rng, thorough):
        idx += 1
        if not run.mine(idx):
            continue
        run.case((func, repr(p)), sample={"function": func, "params": repr(p)[:100]}, sample_key=("f", func))
        o = check_outbound(run, func, p)
        if o is not None:
            check_roundtrip(run, func, p, o)
            check_staged(run, func, p, rng)
            if len(o) < 64:
                valid.append(o)
    if run.shard[0] == 0:
        check_loopback(run, rng)
    # inbound: all function codes with plausible bodies
    for func in range(256):
        for body in (b"", b"\x00\x00", bytes(6), bytes(10), bytes(20), b"\x01\x00\x10\x08"):
            idx += 1
            if run.mine(idx):
                o = W.bvlc_build(func, body)
                run.case(o)
                check_inbound(run, o)
    # every length field around the truth, wrong type octets
    for v in valid[:: (1 if thorough else 3)]:
        for d in (-256, -2, -1, 1, 2, 256):
            ln = len(v) + d
            if 0 <= ln <= 65535:
                o = v[:2] + struct.pack(">H", ln) + v[4:]
                run.case(o)
                check_inbound(run, o)
        for t in (0x00, 0x80, 0x82, 0x01, 0xFF):
            o = bytes([t]) + v[1:]
            run.case(o)
            check_inbound(run, o)
        for pos in range(len(v) + 1):
            muts = [v[:pos]]
            for s in (0x00, 0xFF, 0x81):
                muts.append(v[:pos] + bytes([s]) + v[pos:])
                if pos < len(v):
                    muts.append(v[:pos] + bytes([s]) + v[pos + 1:])
            for m in muts:
                run.case(m)
                check_inbound(run, m)
    # exhaustive short strings
    maxlen = 3 if thorough else 2
    for ln in range(0, maxlen + 1):
        for k, tup in enumerate(itertools.product(range(256), repeat=ln)):
            if run.mine(k >> 8):
                check_inbound(run, bytes(tup))
                run.bulk(1)
    for first in (0x81, 0x80, 0x00):
        for k, tup in enumerate(itertools.product(range(256) if thorough else list(range(16)) + [255], range(256), range(256) if thorough else (0, 1, 4, 5, 6, 255))):
            if run.mine(k >> 8):
                check_inbound(run, bytes((first,) + tup))
                run.bulk(1)
    run.sample({"octet_strings_exhaustive_up_to_length": maxlen, "four_octet_headers_first_octet_in": [0x81, 0x80, 0x00]})
    for _ in range((200000 if thorough else 20000) // run.shard[1]):
        n = rng.randrange(4, 40)
        o = bytearray(rng.getrandbits(8) for _ in range(n))
        if rng.random() < 0.8:
            o[0] = 0x81
        if rng.random() < 0.6:
            o[2:4] = struct.pack(">H", n)
        if rng.random() < 0.6:
            o[1] = rng.randrange(12)
        run.case(bytes(o))
        check_inbound(run, bytes(o))
    run.exhaustive = True
    run.finish(require=("frames_emitted", "frames_roundtripped", "inbound_refused", "inbound_delivered", "held_messages_rechecked",
                        "staged_messages_refused"))


def replay(run):
    import json
    with open(run.replay_path) as f:
        w = json.load(f)["witness"]
    if "octets" in w:
        check_inbound(run, bytes.fromhex(w["octets"][4:]))
    else:
        run.inconclusive_because("structured witness: re-run the tier with the same VERIF_SEED")
    run.finish()


if __name__ == "__main__":
    main_guard(main)
