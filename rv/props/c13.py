"""
C13  B/IP broadcasts reach every node once; foreign registrations expire on time.

Real BIPSimple / BIPBBMD / BIPForeign + AnnexJCodec instances on the library's
virtual IP internetwork.  (A) random layouts: per broadcast token exactly-once,
never back to the originator, true source; completeness against the Annex-J
model on well-formed layouts.  (B) foreign-device life cycle under the virtual
clock: served while registered, renewed in time, not served/listed after
TTL + grace, after an acknowledged Delete-FDT-Entry, after unregistration;
all acknowledgements are read from the wire with the independent BVLC parser.
"""

import struct

from .. import common
from ..common import Run, main_guard

common.bootstrap()

from ..vclock import CLOCK, StepBudgetExceeded
from ..bip import BIPNode, internetwork
from .. import wire as W

from bacpypes.pdu import Address, PDU

RULE = ("(A) random layouts of 1..5 IP subnets, 0..1 BBMD and 0..3 ordinary nodes per subnet, 0..4 foreign devices (own "
        "subnets) registered with random BBMDs with TTL 1..300 s, full or partial/asymmetric distribution tables, two-hop "
        "(/32) and one-hop (directed broadcast) entries; a broadcast from every node; (B) life cycles of 1..2 foreign "
        "devices with TTL 1..300: probes (BBMD-side broadcast, foreign-side broadcast, Read-FDT) at random instants while "
        "registered and every second across each edge +-2 s for silent death, Delete-FDT-Entry and unregistration; every "
        "Read-FDT answer is also compared with all earlier ones since the entry's last registration: the remaining time "
        "reported for each listed entry has fallen by the elapsed time +-1 s.  "
        "A case is one layout or one life cycle; distinct by construction")

GRACE = 30.0


def build_layout(rng, well_formed):
    nsub = rng.randrange(1, 6)
    subs = list(range(1, nsub + 1))
    nfd = rng.randrange(0, 5)
    fd_subs = [50 + i for i in range(nfd)]
    router, nets = internetwork(subs + fd_subs)
    log = []
    nodes = {}
    bbmds = {}
    for k in subs:
        if well_formed or rng.random() < 0.7:
            n = BIPNode("bbmd", "B%d" % k, "192.168.%d.2/24" % k, nets[k], log)
            nodes[n.name] = n
            bbmds[k] = n
        for j in range(rng.randrange(0, 4)):
            n = BIPNode("simple", "N%d.%d" % (k, j), "192.168.%d.%d/24" % (k, 10 + j), nets[k], log)
            nodes[n.name] = n
    if not bbmds:
        n = BIPNode("bbmd", "B%d" % subs[0], "192.168.%d.2/24" % subs[0], nets[subs[0]], log)
        nodes[n.name] = n
        bbmds[subs[0]] = n
    # distribution tables
    one_hop = rng.random() < 0.4
    for k, b in bbmds.items():
        for k2, b2 in bbmds.items():
            if not well_formed and rng.random() < 0.25:
                continue                   # partial / asymmetric table
            mask = "/24" if (one_hop and k2 != k) else "/32"
            b.bip.add_peer(Address("192.168.%d.2%s" % (k2, mask)))
    fds = {}
    for i, k in enumerate(fd_subs):
        home = rng.choice(sorted(bbmds))
        n = BIPNode("foreign", "F%d" % i, "192.168.%d.2/24" % k, nets[k], log, bbmd="192.168.%d.2" % home, ttl=rng.choice([1, 5, 30, 300]))
        n.home = home
        nodes[n.name] = n
        fds[n.name] = n
    # foreign devices that sit on a subnet which has a BBMD of its own but are registered with the BBMD of another subnet
    # (only where the tables are two-hop: a foreign device inside a subnet that its own BBMD also reaches by directed broadcast
    # is a misconfiguration that is not generated)
    if not one_hop and len(bbmds) >= 2:
        for i in range(rng.choice([0, 0, 1, 2])):
            k = rng.choice(sorted(bbmds))
            home = rng.choice([h for h in sorted(bbmds) if h != k])
            n = BIPNode("foreign", "G%d" % i, "192.168.%d.%d/24" % (k, 100 + i), nets[k], log, bbmd="192.168.%d.2" % home, ttl=rng.choice([5, 30, 300]))
            n.home = home
            n.subnet = k
            nodes[n.name] = n
            fds[n.name] = n
    desc = {"subnets": subs, "bbmds": sorted(bbmds), "one_hop": one_hop, "well_formed": well_formed,
            "nodes": sorted(nodes), "foreign": {f.name: f.home for f in fds.values()}, "foreign_inside_bbmd_subnet": {f.name: f.subnet for f in fds.values() if hasattr(f, "subnet")},
            "bdt": {b.name: [str(x) + ("/24" if x.addrMask != 0xFFFFFFFF else "") for x in b.bip.bbmdBDT] for b in bbmds.values()}}
    return nets, log, nodes, bbmds, fds, desc


def layout_case(run, rng, well_formed):
    CLOCK.reset()
    nets, log, nodes, bbmds, fds, desc = build_layout(rng, well_formed)
    try:
        CLOCK.drive(duration=0.5, max_steps=100000)
    except StepBudgetExceeded as err:
        run.violation("layout-does-not-settle", {"layout": desc, "error": str(err)})
        return
    seq = 0
    rounds = [sorted(nodes)]
    movers = [f for f in fds.values() if len(bbmds) >= 2 and rng.random() < 0.5]
    if movers:
        rounds.append("switch")
        rounds.append(sorted(nodes))
    for rnd in rounds:
        if rnd == "switch":
            # some foreign devices register with another BBMD while their entry at the previous one is still alive
            for f in movers:
                choices = [h for h in sorted(bbmds) if h != f.home and h != getattr(f, "subnet", None)]
                if not choices:
                    continue                # (never with the BBMD of the subnet the device itself sits on)
                new_home = rng.choice(choices)
                try:
                    f.bip.register(Address("192.168.%d.2" % new_home), f.bip.bbmdTimeToLive)
                    CLOCK.drive(duration=0.5, max_steps=100000)
                except Exception as err:
                    run.violation("re-registration-raised/" + type(err).__name__, {"layout": desc, "foreign": f.name, "error": repr(err)[:100]})
                    return
                desc.setdefault("moved", {})[f.name] = [f.home, new_home]
                f.home = new_home
                run.count("foreign_devices_moved_to_another_bbmd")
            continue
        if layout_round(run, rng, rnd, nodes, log, desc, well_formed, seq) is False:
            return
        seq += len(rnd)
    run.count("layouts")


def layout_round(run, rng, names, nodes, log, desc, well_formed, seq):
    for name in names:
        src = nodes[name]
        seq += 1
        token = "BC%04d" % seq
        l0 = len(log)
        try:
            src.user.broadcast(token)
            CLOCK.drive(duration=0.3, max_steps=100000)
        except StepBudgetExceeded as err:
            run.violation("broadcast-does-not-terminate", {"layout": desc, "source": name, "error": str(err)})
            return False
        got = [e for e in log[l0:] if e["token"] == token]
        who = [e["at"] for e in got]
        wit = {"layout": desc, "source": name}
        run.count("broadcasts_sent")
        if name in who:
            run.violation("broadcast-returned-to-originator/" + src.kind, dict(wit, deliveries=who))
            continue
        dups = sorted({w for w in who if who.count(w) > 1})
        if dups:
            run.violation("broadcast-delivered-more-than-once/from-%s-to-%s" % (src.kind, nodes[dups[0]].kind), dict(wit, duplicates=dups))
            continue
        bad_src = [e["at"] for e in got if not (e["src"] == src.address)]
        if bad_src:
            run.violation("broadcast-source-is-not-the-originator", dict(wit, at=bad_src[:3], shown=str(got[0]["src"])))
            continue
        run.count("deliveries_checked", len(got))
        if well_formed:
            # Annex J: everybody else, on every subnet, and every registered foreign device
            want = set(nodes) - {name}
            missing = want - set(who)
            if missing:
                kinds = sorted({nodes[m].kind for m in missing})
                run.violation("broadcast-not-delivered/from-%s-to-%s%s" % (src.kind, kinds[0], "/one-hop" if desc["one_hop"] else "/two-hop"),
                              dict(wit, missing=sorted(missing)))
                continue
            run.count("complete_distributions")
    return True


# ----------------------------------------------------------------------
# (B) foreign device life cycle
# ----------------------------------------------------------------------

def bvlc_frames(nets, since):
    out = []
    for k, lan in nets.items():
        for rec in lan.frames:
            if rec["t"] >= since:
                out.append(rec)
    out.sort(key=lambda r: r["t"])
    return out


class LifeCycle:
    def __init__(self, run, rng, ttl, scenario):
        self.run = run
        self.rng = rng
        self.ttl = ttl
        self.scenario = scenario
        CLOCK.reset()
        self.router, self.nets = internetwork([1, 50, 51])
        self.log = []
        self.bbmd = BIPNode("bbmd", "B", "192.168.1.2/24", self.nets[1], self.log)
        self.bbmd.bip.add_peer(Address("192.168.1.2/32"))
        self.local = BIPNode("simple", "N", "192.168.1.10/24", self.nets[1], self.log)
        self.fd = BIPNode("foreign", "F", "192.168.50.2/24", self.nets[50], self.log, bbmd="192.168.1.2", ttl=ttl)
        self.other = BIPNode("foreign", "G", "192.168.51.2/24", self.nets[51], self.log, bbmd="192.168.1.2", ttl=300)
        self.seq = 0
        self.acks = []          # times of acknowledged registrations of F (ttl > 0)
        self.delete_ack = None
        self.unreg = None
        self.dead = None
        self.cursor = 0
        self.wit = {"ttl": ttl, "scenario": scenario}
        self.pending_reg = None
        self.fdt_hist = {}      # address -> [(time of a Read-FDT answer, remaining time it reported)] since the last registration
        self.last_reg = {}      # address -> time of the last Register-Foreign-Device seen on the wire
        self.reg_cursor = {}

    def scan(self):
        """read registration / deletion acknowledgements for F from the wire (independent BVLC parser)"""
        frames = []
        for lan in self.nets.values():
            frames.extend(lan.frames)
        frames.sort(key=lambda r: r["t"])
        self.reg_times = []
        acks = []
        pending = None
        pend_del = None
        self.delete_ack = None
        seen = set()
        for rec in frames:
            key = (rec["t"], rec["src"], rec["dst"], rec["octets"])
            if key in seen:
                continue            # the same datagram is logged on every subnet it crosses
            seen.add(key)
            try:
                p = W.bvlc_parse(rec["octets"])
            except W.Malformed:
                continue
            src, dst = rec["src"][0], rec["dst"][0]
            if p["func"] == 0x05 and src == "192.168.50.2":
                self.reg_times.append((rec["t"], p["ttl"]))
                pending = (rec["t"], p["ttl"])
            elif p["func"] == 0x00 and src == "192.168.1.2" and dst == "192.168.50.2" and pending is not None:
                if p["code"] == 0 and pending[1] > 0:
                    acks.append(rec["t"])
                pending = None
            elif p["func"] == 0x08 and p["addr"][0] == "192.168.50.2":
                pend_del = rec["t"]
            elif p["func"] == 0x00 and src == "192.168.1.2" and pend_del is not None and dst == "192.168.1.10":
                if p["code"] == 0:
                    self.delete_ack = rec["t"]
                pend_del = None
        self.acks = acks

    def expectation(self, t):
        """'must' / 'must-not' / 'either' be served at instant t, from the acknowledgements seen on the wire"""
        self.scan()
        acks = [a for a in self.acks if a <= t]
        if not acks:
            return "either"
        last = acks[-1]
        if getattr(self, "drop_time", None) is not None:
            # the first acknowledgement after the injected loss never reached F: from then until the next one the BBMD serves
            # an entry that F has reason to doubt (its watchdog may make it discard what it is sent): nothing is demanded
            later = [a for a in self.acks if a > self.drop_time]
            if later and t >= later[0] and (len(later) < 2 or t < later[1]):
                return "either"
        if self.delete_ack is not None and self.delete_ack <= t and last <= self.delete_ack:
            return "must-not"
        if self.unreg is not None and t >= self.unreg:
            return "must-not" if t > self.unreg + GRACE + 1 else "either"
        if t <= last + self.ttl:
            return "must"
        if t > last + self.ttl + GRACE + 1:
            return "must-not"
        return "either"

    def probe(self):
        """one probe at the current instant: BBMD-side broadcast, foreign-side broadcast, Read-FDT"""
        t = CLOCK.now
        exp = self.expectation(t)
        self.run.count("probes")
        self.run.count("probes_" + exp.replace("-", "_"))
        # broadcast from the BBMD's subnet must (not) reach F
        self.seq += 1
        tok = "P%05d" % self.seq
        l0 = len(self.log)
        self.local.user.broadcast(tok)
        CLOCK.settle()
        at = [e["at"] for e in self.log[l0:] if e["token"] == tok]
        n = at.count("F")
        w = dict(self.wit, at=t - CLOCK.START, last_ack=(self.acks[-1] - CLOCK.START) if self.acks else None, expectation=exp,
                 acknowledgements=[round(a - CLOCK.START, 1) for a in self.acks][-6:],
                 acknowledgement_lost_after=(round(self.drop_time - CLOCK.START, 1) if getattr(self, "drop_time", None) is not None else None),
                 device_status=getattr(self.fd.bip, "registrationStatus", None))
        if exp == "must" and n != 1:
            self.run.violation("registered-foreign-device-not-served/broadcast-to-it" if n == 0 else "foreign-device-served-twice", dict(w, deliveries=n))
            return False
        if exp == "must-not" and n:
            self.run.violation("foreign-device-still-served/%s/broadcast-to-it" % self.phase(t), w)
            return False
        # a broadcast from F must (not) be distributed on the BBMD's subnet
        self.seq += 1
        tok = "Q%05d" % self.seq
        l0 = len(self.log)
        if self.dead is None or True:
            # even a device that stopped renewing may still try to send: the BBMD decides
            self.send_distribute(tok)
            CLOCK.settle()
            at = [e["at"] for e in self.log[l0:] if e["token"] == tok]
            n = at.count("N")
            if exp == "must" and n != 1:
                self.run.violation("registered-foreign-device-not-served/broadcast-from-it" if n == 0 else "foreign-broadcast-distributed-twice", dict(w, deliveries=n))
                return False
            if exp == "must-not" and n:
                self.run.violation("foreign-device-still-served/%s/broadcast-from-it" % self.phase(t), w)
                return False
            if exp == "must-not" and "B" in at:
                # ... nor handed to the BBMD's own network layer
                self.run.violation("foreign-device-still-served/%s/broadcast-from-it-reaches-the-bbmd-itself" % self.phase(t), w)
                return False
            if exp == "must" and at.count("B") != 1:
                self.run.violation("registered-foreign-device-not-served/broadcast-from-it-at-the-bbmd-itself", dict(w, deliveries=at.count("B")))
                return False
            if "F" in at:
                self.run.violation("foreign-broadcast-returned-to-originator", w)
                return False
        # Read-FDT
        l_frames = len(self.nets[1].frames)
        self.local.mux.request(PDU(W.bvlc_build(0x06, b""), source=self.local.mux.unicast_tuple, destination=("192.168.1.2", 47808)))
        CLOCK.settle()
        listed = None
        for rec in self.nets[1].frames[l_frames:]:
            try:
                p = W.bvlc_parse(rec["octets"])
            except W.Malformed:
                continue
            if p["func"] == 0x07:
                listed = any(e[0] == "192.168.50.2" for e in p["fdt"])
                if not self.countdown(rec["t"], p["fdt"], w):
                    return False
                for ip, port, ttl, rem in p["fdt"]:
                    if ip == "192.168.50.2" and exp == "must" and rem > ttl + GRACE + 1:
                        self.run.violation("remaining-time-exceeds-ttl-plus-grace", dict(w, ttl=ttl, remaining=rem))
                        return False
        if listed is None:
            self.run.violation("read-foreign-device-table-not-answered", w)
            return False
        self.run.count("fdt_reads")
        if exp == "must" and not listed:
            self.run.violation("registered-foreign-device-not-listed", w)
            return False
        if exp == "must-not" and listed:
            self.run.violation("foreign-device-still-listed/%s" % self.phase(t), w)
            return False
        return True

    def countdown(self, t, fdt, w):
        """the remaining time a BBMD reports for an entry falls with the clock: between two Read-FDT answers with no
        Register-Foreign-Device from that address on the wire in between, it has fallen by the elapsed time, give or take
        the one-second tick (an entry whose countdown stalls outlives what the table itself promised)"""
        regs = {}
        for lan in self.nets.values():
            for rec in lan.frames[self.reg_cursor.get(id(lan), 0):]:
                if len(rec["octets"]) >= 2 and rec["octets"][0] == 0x81 and rec["octets"][1] == 0x05:
                    self.last_reg[rec["src"][0]] = max(self.last_reg.get(rec["src"][0], 0.0), rec["t"])
            self.reg_cursor[id(lan)] = len(lan.frames)
        for ip, port, ttl, rem in fdt:
            since = self.last_reg.get(ip)
            if since is None:
                continue
            hist = [(ti, ri) for ti, ri in self.fdt_hist.get(ip, []) if ti > since + 1e-9]
            if t > since + 1e-9:
                for ti, ri in hist:
                    dt, dr = t - ti, ri - rem
                    self.run.count("countdown_pairs_compared")
                    if dr < dt - 1.0 - 1e-6 or dr > dt + 1.0 + 1e-6:
                        self.run.violation("remaining-time-does-not-count-down-with-the-clock/" + ("stalls" if dr < dt else "runs-ahead"),
                                           dict(w, entry=ip, ttl_of_entry=ttl, first_read_at=round(ti - CLOCK.START, 3), remaining_then=ri,
                                                second_read_at=round(t - CLOCK.START, 3), remaining_now=rem,
                                                last_registration_at=round(since - CLOCK.START, 3)))
                        return False
                hist.append((t, rem))
            self.fdt_hist[ip] = hist[-40:]
        return True

    def phase(self, t):
        if self.delete_ack is not None and self.delete_ack <= t:
            return "after-acknowledged-delete"
        if self.unreg is not None and t >= self.unreg:
            return "after-unregistration"
        return "after-ttl-plus-grace"

    def send_distribute(self, tok):
        """F hands a broadcast to its B/IP layer; if the library's foreign side refuses to send (it believes it is not
        registered) the datagram is put on the wire directly - the BBMD has to decide"""
        n0 = len(self.nets[50].frames)
        self.fd.user.broadcast(tok)
        CLOCK.settle()
        sent = [r for r in self.nets[50].frames[n0:] if r["src"][0] == "192.168.50.2"]
        if not sent:
            self.fd.mux.request(PDU(W.bvlc_build(0x09, tok.encode("ascii")), source=self.fd.mux.unicast_tuple, destination=("192.168.1.2", 47808)))

    def run_cycle(self):
        rng = self.rng
        ttl = self.ttl
        try:
            CLOCK.drive(duration=0.2, max_steps=100000)
            self.scan()
            if not self.acks:
                self.run.violation("registration-not-acknowledged", self.wit)
                return
            # while registered: probes at random instants over two to three renewals
            horizon = min(3 * ttl, 700)
            t_end = CLOCK.now + horizon
            while CLOCK.now < t_end:
                CLOCK.drive(duration=rng.choice([0.3, 1.0, ttl / 3.0, ttl - 0.5 if ttl > 1 else 0.5, 0.999]), max_steps=200000)
                if not self.probe():
                    return
            # renewal: gaps between registrations of F never exceed the ttl
            self.scan()
            regs = [t for t, tt in self.reg_times if tt > 0]
            for a, b in zip(regs, regs[1:]):
                if b - a > ttl + 0.5:
                    self.run.violation("registration-not-renewed-in-time", dict(self.wit, gap=b - a))
                    return
            self.run.count("renewals_observed", max(0, len(regs) - 1))
            # the edge
            if self.scenario == "death":
                self.fd.bip.suspend_task()               # the device stops renewing (it died silently)
                self.dead = CLOCK.now
                self.scan()
                last = self.acks[-1]
                edge = last + ttl
                self.walk(edge - 2, edge + GRACE + 4)
            elif self.scenario == "delete":
                # a third party deletes the entry; F keeps believing it is registered until its next renewal
                CLOCK.drive(duration=rng.choice([0.1, 0.5]), max_steps=100000)
                self.local.mux.request(PDU(W.bvlc_build(0x08, W.ip6("192.168.50.2", 47808)), source=self.local.mux.unicast_tuple,
                                           destination=("192.168.1.2", 47808)))
                CLOCK.settle()
                self.scan()
                if self.delete_ack is None:
                    self.run.violation("delete-foreign-device-table-entry-not-acknowledged", self.wit)
                    return
                # at once, and until F registers again
                self.scan()
                nxt = [t for t, tt in self.reg_times][-1] + ttl
                self.walk(CLOCK.now, min(nxt - 0.01, CLOCK.now + 5), step=0.25 if ttl <= 5 else 1.0)
            elif self.scenario == "lost-ack":
                # the acknowledgement of one renewal is lost on its way to F: the BBMD has renewed the entry (the wire shows it),
                # F's watchdog may fire, F keeps renewing and is served throughout
                self.fd.mux.drop_results = 1
                self.drop_time = CLOCK.now
                t_stop = CLOCK.now + 3 * ttl + GRACE + 10
                if not self.walk(CLOCK.now + 0.5, t_stop, step=max(1.0, ttl / 5.0)):
                    return
                self.scan()
                regs = [t for t, tt in self.reg_times if tt > 0]
                for a, b in zip(regs, regs[1:]):
                    if b - a > ttl + 0.5:
                        self.run.violation("registration-not-renewed-in-time/after-a-lost-acknowledgement", dict(self.wit, gap=b - a))
                        return
                if regs and CLOCK.now - regs[-1] > ttl + 0.5:
                    self.run.violation("registration-not-renewed-in-time/after-a-lost-acknowledgement", dict(self.wit, gap=CLOCK.now - regs[-1], renewals_stopped=True))
                    return
                self.run.count("lost_acknowledgement_cycles")
            elif self.scenario == "unregister":
                self.fd.bip.unregister()
                self.unreg = CLOCK.now
                CLOCK.settle()
                self.walk(self.unreg + GRACE - 1, self.unreg + GRACE + 4)
            elif self.scenario == "register-again":
                # the device unregisters and, some time later, registers again: from the new acknowledgement on it is served
                self.fd.bip.unregister()
                self.unreg = CLOCK.now
                CLOCK.drive(duration=rng.choice([0.5, 3.0, GRACE + 5.0]), max_steps=200000)
                self.fd.bip.register(Address("192.168.1.2"), ttl)
                CLOCK.drive(duration=0.3, max_steps=100000)
                self.unreg = None
                self.scan()
                if not self.acks or self.acks[-1] < CLOCK.now - 1.0:
                    self.run.violation("registration-not-acknowledged/after-unregistering", self.wit)
                    return
                self.walk(CLOCK.now, CLOCK.now + min(2 * ttl, 100) + 2, step=max(0.5, ttl / 4.0))
                self.run.count("register_again_cycles")
        except StepBudgetExceeded as err:
            self.run.violation("life-cycle-does-not-quiesce", dict(self.wit, error=str(err)))
            return
        self.run.count("life_cycles")

    def walk(self, t_from, t_to, step=1.0):
        if t_from > CLOCK.now:
            CLOCK.drive(until=t_from, max_steps=400000)
        while CLOCK.now <= t_to:
            if not self.probe():
                return False
            CLOCK.drive(duration=step, max_steps=100000)
        return True


def huge_ttl_case(run, ttl):
    """registrations with the largest time-to-live values the field can carry: acknowledged, listed (the table can still be
    read), served"""
    CLOCK.reset()
    lc = LifeCycle(run, __import__("random").Random(ttl), ttl, "huge-ttl")
    try:
        CLOCK.drive(duration=0.2, max_steps=100000)
        lc.scan()
        if not lc.acks:
            run.violation("registration-not-acknowledged", lc.wit)
            return
        for d in (0.0, 0.4, 1.0, 3.0, 2.0):
            CLOCK.drive(duration=d, max_steps=100000)
            if not lc.probe():
                return
    except StepBudgetExceeded as err:
        run.violation("life-cycle-does-not-quiesce", dict(lc.wit, error=str(err)))
        return
    run.count("huge_ttl_cases")


def main():
    run = Run("C13", "exploration", RULE, assumptions=[
        "virtual IP internetwork (vlan.IPNetwork/IPRouter); the UDP multiplexer is replaced by an address adapter",
        "a registration interval runs from an acknowledged Register-Foreign-Device (read from the wire) to the earliest of "
        "ttl expiry, acknowledged deletion or unregistration; between ttl and ttl+30 s+1 s either behaviour is accepted",
        "completeness is demanded on well-formed layouts only (every populated subnet has a BBMD, full tables incl. self)"])
    if run.tier == "replay":
        run.inconclusive_because("replay: re-run the tier with the same VERIF_SEED")
        return run.finish()
    thorough = run.tier == "thorough"
    if thorough and run.args.shard is None:
        run.run_shards("rv.props.c13", timeout=3400)
        return run.finish(require=("layouts", "deliveries_checked", "complete_distributions", "life_cycles", "probes_must", "probes_must_not", "fdt_reads", "countdown_pairs_compared"))
    rng = run.rng("c13")
    n = (80000 if thorough else 600) // (run.shard[1] if thorough else 1) + 1
    for i in range(n):
        wf = rng.random() < 0.6
        run.case(("layout", run.shard[0], i), sample={"kind": "layout", "well_formed": wf}, sample_key=("layout", wf))
        layout_case(run, rng, wf)
    if run.shard[0] == 0:
        for ttl in (65535, 65534, 65531, 65530, 65529, 40000):
            run.case(("huge-ttl", ttl), sample=None)
            huge_ttl_case(run, ttl)
    ttls = [1, 2, 5, 30, 60, 300] if not thorough else [1, 2, 3, 5, 10, 30, 60, 120, 300]
    k = 0
    for ttl in ttls:
        for scenario in ("death", "delete", "unregister", "lost-ack", "register-again"):
            for rep in range(32 if thorough else 3):
                k += 1
                if thorough and not run.mine(k):
                    continue
                run.case(("cycle", ttl, scenario, rep), sample={"kind": "life cycle", "ttl": ttl, "scenario": scenario}, sample_key=("cycle", scenario))
                LifeCycle(run, rng, ttl, scenario).run_cycle()
    run.finish(require=("layouts", "deliveries_checked", "complete_distributions", "life_cycles", "probes_must", "probes_must_not", "fdt_reads", "countdown_pairs_compared"))


if __name__ == "__main__":
    main_guard(main)
