"""
Worked examples in the style of ASHRAE 135 Annex F for C03.

Each vector gives the parameter values in words (as library keyword values),
the APDU header fields, and the expected tag stream written with the
independent reference codec (rv.refcodec / rv.wire).  `memo` is the hex string
as transcribed from the standard from memory: it is only used as a third check
- a vector whose memo differs from the derived octets is reported in the
evidence as 'transcription not admitted' and judged on the derivation alone.
"""

import struct

from .. import refcodec as R
from .. import wire as W
from .. import schema as S

import bacpypes.apdu as AP
from bacpypes.pdu import PDU
from bacpypes.constructeddata import Any
from bacpypes.primitivedata import Real, OctetString, BitString, Enumerated, Unsigned, CharacterString
from bacpypes.basetypes import PropertyValue, PropertyReference, StatusFlags, ErrorType, DateTime
from bacpypes.apdu import ReadAccessSpecification, ReadAccessResult, ReadAccessResultElement, ReadAccessResultElementChoice


def ctx(n, data):
    return (R.CTX, n, len(data), data)


def app(kind, content):
    return (R.APP, kind, len(content), content)


def op(n):
    return (R.OPEN, n, 0, b"")


def cl(n):
    return (R.CLOSE, n, 0, b"")


def oid(t, i):
    return R.enc_objid(t, i)


def chars(s):
    return b"\x00" + s.encode("utf-8")


F27 = bytes(range(0x41, 0x41 + 27))

VECTORS = []


def vec(name, reg, header, tags, build, memo=None):
    VECTORS.append({"name": name, "reg": reg, "header": header, "tags": tags, "build": build, "memo": memo})


# ---- ReadProperty
vec("ReadProperty-request", "confirmed", dict(type=W.CONFIRMED, max_segs=0, max_resp=4, invoke=1, service=12),
    [ctx(0, oid(0, 5)), ctx(1, b"\x55")],
    lambda: AP.ReadPropertyRequest(objectIdentifier=("analogInput", 5), propertyIdentifier="presentValue"),
    "0004010c0c000000051955")
vec("ReadProperty-ack", "complex-ack", dict(type=W.COMPLEX_ACK, invoke=1, service=12),
    [ctx(0, oid(0, 5)), ctx(1, b"\x55"), op(3), app(R.REAL, struct.pack(">f", 72.3)), cl(3)],
    lambda: AP.ReadPropertyACK(objectIdentifier=("analogInput", 5), propertyIdentifier="presentValue", propertyValue=Any(Real(72.3))),
    "30010c0c0000000519553e444290999a3f")
# ---- WriteProperty
vec("WriteProperty-request", "confirmed", dict(type=W.CONFIRMED, max_segs=0, max_resp=4, invoke=89, service=15),
    [ctx(0, oid(2, 1)), ctx(1, b"\x55"), op(3), app(R.REAL, struct.pack(">f", 180.0)), cl(3)],
    lambda: AP.WritePropertyRequest(objectIdentifier=("analogValue", 1), propertyIdentifier="presentValue", propertyValue=Any(Real(180.0))),
    "0004590f0c008000011955 3e4443340000 3f")
vec("WriteProperty-with-index-and-priority", "confirmed", dict(type=W.CONFIRMED, max_segs=0, max_resp=4, invoke=90, service=15),
    [ctx(0, oid(1, 7)), ctx(1, b"\x57"), ctx(2, b"\x08"), op(3), app(R.REAL, struct.pack(">f", 1.5)), cl(3), ctx(4, b"\x08")],
    lambda: AP.WritePropertyRequest(objectIdentifier=("analogOutput", 7), propertyIdentifier="priorityArray", propertyArrayIndex=8,
                                    propertyValue=Any(Real(1.5)), priority=8))
# ---- Who-Is / I-Am / Who-Has / I-Have
vec("WhoIs", "unconfirmed", dict(type=W.UNCONFIRMED, service=8), [], lambda: AP.WhoIsRequest(), "1008")
vec("WhoIs-range", "unconfirmed", dict(type=W.UNCONFIRMED, service=8), [ctx(0, b"\x03"), ctx(1, b"\x03")],
    lambda: AP.WhoIsRequest(deviceInstanceRangeLowLimit=3, deviceInstanceRangeHighLimit=3), "100809031903")
vec("IAm", "unconfirmed", dict(type=W.UNCONFIRMED, service=0),
    [app(R.OBJID, oid(8, 3)), app(R.UNSIGNED, b"\x04\x00"), app(R.ENUM, b"\x03"), app(R.UNSIGNED, b"\x63")],
    lambda: AP.IAmRequest(iAmDeviceIdentifier=("device", 3), maxAPDULengthAccepted=1024, segmentationSupported="noSegmentation", vendorID=99),
    "1000c4020000032204009103 2163")
vec("WhoHas-by-name", "unconfirmed", dict(type=W.UNCONFIRMED, service=7), [ctx(3, chars("OATemp"))],
    lambda: AP.WhoHasRequest(object=AP.WhoHasObject(objectName="OATemp")), "10073d07004f4154656d70")
vec("IHave", "unconfirmed", dict(type=W.UNCONFIRMED, service=1),
    [app(R.OBJID, oid(8, 8)), app(R.OBJID, oid(0, 3)), app(R.CHARS, chars("OATemp"))],
    lambda: AP.IHaveRequest(deviceIdentifier=("device", 8), objectIdentifier=("analogInput", 3), objectName="OATemp"),
    "1001c402000008c4000000037507004f4154656d70")
# ---- COV
vec("SubscribeCOV", "confirmed", dict(type=W.CONFIRMED, max_segs=0, max_resp=2, invoke=15, service=5),
    [ctx(0, b"\x12"), ctx(1, oid(0, 10)), ctx(2, b"\x01"), ctx(3, b"\x00")],
    lambda: AP.SubscribeCOVRequest(subscriberProcessIdentifier=18, monitoredObjectIdentifier=("analogInput", 10),
                                   issueConfirmedNotifications=True, lifetime=0),
    "00020f0509121c0000000a29013900")
vec("SubscribeCOV-cancel", "confirmed", dict(type=W.CONFIRMED, max_segs=0, max_resp=2, invoke=16, service=5),
    [ctx(0, b"\x12"), ctx(1, oid(0, 10))],
    lambda: AP.SubscribeCOVRequest(subscriberProcessIdentifier=18, monitoredObjectIdentifier=("analogInput", 10)))
vec("ConfirmedCOVNotification", "confirmed", dict(type=W.CONFIRMED, max_segs=0, max_resp=2, invoke=15, service=1),
    [ctx(0, b"\x12"), ctx(1, oid(8, 4)), ctx(2, oid(0, 10)), ctx(3, b"\x00"), op(4),
     ctx(0, b"\x55"), op(2), app(R.REAL, struct.pack(">f", 65.0)), cl(2),
     ctx(0, b"\x6f"), op(2), app(R.BITS, b"\x04\x00"), cl(2), cl(4)],
    lambda: AP.ConfirmedCOVNotificationRequest(
        subscriberProcessIdentifier=18, initiatingDeviceIdentifier=("device", 4), monitoredObjectIdentifier=("analogInput", 10), timeRemaining=0,
        listOfValues=[PropertyValue(propertyIdentifier="presentValue", value=Any(Real(65.0))),
                      PropertyValue(propertyIdentifier="statusFlags", value=Any(StatusFlags([0, 0, 0, 0])))]),
    "00020f0109121c020000042c0000000a39004e09552e44428200002f096f2e8204002f4f")
# ---- device management
vec("TimeSynchronization", "unconfirmed", dict(type=W.UNCONFIRMED, service=6),
    [app(R.DATE, bytes([92, 11, 17, 2])), app(R.TIME, bytes([22, 45, 30, 70]))],
    lambda: AP.TimeSynchronizationRequest(time=DateTime(date=(92, 11, 17, 2), time=(22, 45, 30, 70))),
    "1006a45c0b1102b4162d1e46")
vec("ReinitializeDevice", "confirmed", dict(type=W.CONFIRMED, max_segs=0, max_resp=1, invoke=2, service=20),
    [ctx(0, b"\x01"), ctx(1, chars("AbCdEfGh"))],
    lambda: AP.ReinitializeDeviceRequest(reinitializedStateOfDevice="warmstart", password="AbCdEfGh"),
    "00010214 0901 1d09004162436445664768")
vec("DeviceCommunicationControl", "confirmed", dict(type=W.CONFIRMED, max_segs=0, max_resp=4, invoke=5, service=17),
    [ctx(0, b"\x05"), ctx(1, b"\x01"), ctx(2, chars("#egbad&"))],
    lambda: AP.DeviceCommunicationControlRequest(timeDuration=5, enableDisable="disable", password="#egbad&"),
    "00040511090519012d080023656762616426")
# ---- files
vec("AtomicReadFile-stream", "confirmed", dict(type=W.CONFIRMED, max_segs=0, max_resp=2, invoke=0, service=6),
    [app(R.OBJID, oid(10, 1)), op(0), app(R.INTEGER, b"\x00"), app(R.UNSIGNED, b"\x1b"), cl(0)],
    lambda: AP.AtomicReadFileRequest(fileIdentifier=("file", 1), accessMethod=AP.AtomicReadFileRequestAccessMethodChoice(
        streamAccess=AP.AtomicReadFileRequestAccessMethodChoiceStreamAccess(fileStartPosition=0, requestedOctetCount=27))),
    "00020006c4028000010e3100211b0f")
vec("AtomicReadFile-stream-ack", "complex-ack", dict(type=W.COMPLEX_ACK, invoke=0, service=6),
    [(R.APP, R.BOOLEAN, 0, b""), op(0), app(R.INTEGER, b"\x00"), app(R.OCTETS, F27), cl(0)],
    lambda: AP.AtomicReadFileACK(endOfFile=False, accessMethod=AP.AtomicReadFileACKAccessMethodChoice(
        streamAccess=AP.AtomicReadFileACKAccessMethodStreamAccess(fileStartPosition=0, fileData=F27))))
# ---- ReadPropertyMultiple
vec("ReadPropertyMultiple-request", "confirmed", dict(type=W.CONFIRMED, max_segs=0, max_resp=4, invoke=241, service=14),
    [ctx(0, oid(0, 16)), op(1), ctx(0, b"\x55"), ctx(0, b"\x67"), cl(1)],
    lambda: AP.ReadPropertyMultipleRequest(listOfReadAccessSpecs=[ReadAccessSpecification(
        objectIdentifier=("analogInput", 16),
        listOfPropertyReferences=[PropertyReference(propertyIdentifier="presentValue"), PropertyReference(propertyIdentifier="reliability")])]),
    "0004f10e0c000000101e095509671f")
vec("ReadPropertyMultiple-ack", "complex-ack", dict(type=W.COMPLEX_ACK, invoke=241, service=14),
    [ctx(0, oid(0, 16)), op(1), ctx(2, b"\x55"), op(4), app(R.REAL, struct.pack(">f", 72.3)), cl(4),
     ctx(2, b"\x67"), op(4), app(R.ENUM, b"\x00"), cl(4), cl(1)],
    lambda: AP.ReadPropertyMultipleACK(listOfReadAccessResults=[ReadAccessResult(
        objectIdentifier=("analogInput", 16),
        listOfResults=[ReadAccessResultElement(propertyIdentifier="presentValue", readResult=ReadAccessResultElementChoice(propertyValue=Any(Real(72.3)))),
                       ReadAccessResultElement(propertyIdentifier="reliability", readResult=ReadAccessResultElementChoice(propertyValue=Any(Enumerated(0))))])]),
    "30f10e0c000000101e29554e444290999a4f29674e91004f1f")
# ---- errors
vec("Error-unknown-object", "error", dict(type=W.ERROR, invoke=1, service=12), [app(R.ENUM, b"\x01"), app(R.ENUM, b"\x1f")],
    lambda: AP.Error(errorClass="object", errorCode="unknownObject"), "50010c9101911f")


def lib_octets(v):
    x = v["build"]()
    reg = v["reg"]
    h = v["header"]
    if reg != "unconfirmed":
        x.apduInvokeID = h["invoke"]
    if reg == "error":
        x.apduService = h["service"]
    c = S.PDU_CONTAINER[reg]()
    x.encode(c)
    if reg == "confirmed":
        c.apduMaxSegs = h["max_segs"]
        c.apduMaxResp = h["max_resp"]
        c.apduSA = False
    a = AP.APDU()
    c.encode(a)
    p = PDU()
    a.encode(p)
    return bytes(p.pduData), x


def check_all(run):
    for v in VECTORS:
        derived = W.apci_build(dict(v["header"], payload=R.tlv_encode(v["tags"])))
        wit = {"example": v["name"], "expected": derived}
        if v["memo"] is not None:
            memo = bytes.fromhex(v["memo"].replace(" ", ""))
            if memo != derived:
                run.count("annex_f_transcriptions_not_admitted")
                run.seen("annex_f_transcriptions_not_admitted", v["name"])
            else:
                run.count("annex_f_transcriptions_agreeing_with_derivation")
        run.case(("annexF", v["name"]), sample={"annex_f_example": v["name"], "octets": derived}, sample_key=("af", v["name"] in ("ReadProperty-ack", "IAm")))
        try:
            got, built = lib_octets(v)
        except Exception as err:
            run.violation("annex-f-example-not-encodable/" + v["name"], dict(wit, error=repr(err)[:160]))
            continue
        run.count("annex_f_vectors_checked")
        if got != derived:
            k = next((i for i in range(min(len(got), len(derived))) if got[i] != derived[i]), min(len(got), len(derived)))
            run.violation("annex-f-octets-differ/" + v["name"], dict(wit, produced=got, first_difference_at=k))
            continue
        # the published octets decode to the published parameter values
        try:
            z, t = S.decode_pdu(v["reg"], derived)
        except Exception as err:
            run.violation("annex-f-octets-not-decodable/" + v["name"], dict(wit, error=repr(err)[:160]))
            continue
        klass = type(built)
        if type(z) is not klass or S.norm(klass, z) != S.norm(klass, built):
            run.violation("annex-f-decoded-values-differ/" + v["name"], dict(wit, decoded=repr(S.norm(type(z), z))[:400], published=repr(S.norm(klass, built))[:400]))
            continue
        if v["reg"] != "unconfirmed" and t.apduInvokeID != v["header"]["invoke"]:
            run.violation("annex-f-invoke-id-differs/" + v["name"], wit)
