"""
C02  Tag streams are self-delimiting: framing is total, canonical and balanced.

(a) tag lists -> octets == reference TLV encoder, decode == same list, nothing left
(b) arbitrary octets: decoder terminates (line budget), raises only InvalidTag,
    agrees with the reference parser on every stream the standard allows, never
    over-reads, and any list it returns survives re-encode/decode unchanged
(c) get_context / Any.decode against a bracket-depth model
"""

import itertools

from .. import common
from ..common import Run, main_guard

common.bootstrap()

from .. import refcodec as R
from ..budget import LineBudget, StepBudgetExceeded

from bacpypes.pdu import PDUData
from bacpypes.errors import InvalidTag, DecodingError
from bacpypes.primitivedata import Tag, TagList, ApplicationTag, ContextTag, OpeningTag, ClosingTag
from bacpypes.constructeddata import Any

RULE = ("(a) tag lists over class{app,ctx,open,close} x number{0,1,13,14,15,16,127,254} x length{0..6,253..256,65534..65536,70000} "
        "(lists of 0..6 tags); (b) every octet string of length 0..2 (quick) / 0..3 (thorough) plus mutants of valid "
        "streams and random strings up to 64 octets; (c) every sequence over {app,ctx0,ctx1,open0,open1,close0,close1} "
        "of length <=6 (quick) / <=7 (thorough) plus random nestings to depth 4.  distinct = distinct octet strings / "
        "tag sequences; non-trivial = the library produced a tag list or a refusal that was compared with the model")

CLS = {0: R.APP, 1: R.CTX, 2: R.OPEN, 3: R.CLOSE}
NUMBERS = [0, 1, 13, 14, 15, 16, 127, 254]
LENGTHS = [0, 1, 2, 3, 4, 5, 6, 253, 254, 255, 256, 65534, 65535, 65536, 70000]


def tup(tag):
    return (CLS.get(tag.tagClass, tag.tagClass), tag.tagNumber, tag.tagLVT, bytes(tag.tagData))


def make_tag(cls, number, length, fill):
    if cls == R.OPEN:
        return OpeningTag(number)
    if cls == R.CLOSE:
        return ClosingTag(number)
    if cls == R.APP and number == 1:
        return Tag(Tag.applicationTagClass, 1, length & 1, b"")
    data = bytes([(fill + i) & 0xFF for i in range(length)]) if length < 300 else bytes([fill]) * length
    if cls == R.APP:
        return ApplicationTag(number, data)
    return ContextTag(number, data)


BUDGET = None


def lib_decode(octets):
    """TagList.decode under the line budget -> ('ok', tags) | ('invalid',) | ('raised', name) | ('loop',)"""
    pdu = PDUData(octets)
    tl = TagList()
    BUDGET.arm(200 + 40 * len(octets))
    try:
        tl.decode(pdu)
    except InvalidTag:
        BUDGET.disarm()
        return ("invalid", None, pdu)
    except StepBudgetExceeded:
        BUDGET.disarm()
        return ("loop", None, pdu)
    except Exception as err:
        BUDGET.disarm()
        return ("raised", type(err).__name__ + ": " + str(err)[:80], pdu)
    BUDGET.disarm()
    return ("ok", tl, pdu)


def check_list(run, tags, wit):
    """(a): a list of library tags"""
    exp_t = [tup(t) for t in tags]
    try:
        exp = R.tlv_encode(exp_t)
    except R.Unrepresentable:
        return
    pdu = PDUData()
    try:
        TagList(list(tags)).encode(pdu)
    except Exception as err:
        run.violation("taglist-encode-raised/" + type(err).__name__, dict(wit, error=repr(err)[:200]))
        return
    octets = bytes(pdu.pduData)
    run.count("lists_encoded")
    if octets != exp:
        k = next((i for i in range(min(len(octets), len(exp))) if octets[i] != exp[i]), min(len(octets), len(exp)))
        run.violation("taglist-octets-not-canonical", dict(wit, at=k, got=octets[max(0, k - 4):k + 8], want=exp[max(0, k - 4):k + 8]))
        return
    st, tl, rest = lib_decode(octets)
    if st != "ok":
        run.violation("own-encoding-not-decodable/" + st, dict(wit, detail=tl if isinstance(tl, str) else None, head=octets[:16]))
        return
    if rest.pduData:
        run.violation("decoder-left-octets", dict(wit, left=len(rest.pduData)))
        return
    got_t = [tup(t) for t in tl.tagList]
    run.count("lists_decoded")
    if got_t != exp_t:
        run.violation("taglist-roundtrip-differs", dict(wit, got=[(c, n, l) for c, n, l, d in got_t][:8],
                                                        want=[(c, n, l) for c, n, l, d in exp_t][:8]))


def check_octets(run, octets, wit=None):
    """(b): one arbitrary octet string"""
    octets = bytes(octets)
    wit = wit or {"octets": octets[:80], "len": len(octets)}
    try:
        ref = R.tlv_parse(octets, strict=True)
    except R.Malformed:
        ref = None
    st, tl, rest = lib_decode(octets)
    if st == "loop":
        run.violation("decoder-does-not-terminate", wit)
        return
    if st == "raised":
        run.violation("decoder-raised-other-than-InvalidTag/" + tl.split(":")[0], dict(wit, error=tl))
        return
    if st == "invalid":
        run.count("rejected")
        if ref is not None:
            run.violation("valid-stream-rejected", wit)
        return
    run.count("accepted")
    got = [tup(t) for t in tl.tagList]
    if rest.pduData:
        run.violation("decoder-left-octets", wit)
        return
    if sum(len(d) for c, n, l, d in got) + len(got) > len(octets):
        run.violation("decoder-over-read", dict(wit, tags=len(got)))
        return
    if ref is not None:
        run.count("agreed_with_reference")
        if got != ref:
            run.violation("decoded-list-differs-from-reference", dict(wit, got=[(c, n, l) for c, n, l, d in got][:6],
                                                                      want=[(c, n, l) for c, n, l, d in ref][:6]))
            return
    else:
        run.count("accepted_nonstandard_stream")
    # whatever was returned must survive re-encoding
    pdu = PDUData()
    try:
        tl.encode(pdu)
    except Exception as err:
        run.violation("decoded-list-not-reencodable/" + type(err).__name__, dict(wit, error=repr(err)[:100]))
        return
    st2, tl2, rest2 = lib_decode(bytes(pdu.pduData))
    if st2 != "ok" or [tup(t) for t in tl2.tagList] != got or rest2.pduData:
        run.violation("reencoded-list-decodes-differently", dict(wit, reencoded=bytes(pdu.pduData)[:40], status=st2))


# ----------------------------------------------------------------------
# (c) bracket model
# ----------------------------------------------------------------------

def model_get_context(seq, context):
    """seq: list of (cls, number).  -> ('tag', i) | ('group', i, j) | ('none',) | ('invalid',)"""
    i, n = 0, len(seq)
    while i < n:
        cls, num = seq[i]
        if cls == R.CTX:
            if num == context:
                return ("tag", i)
        elif cls == R.OPEN:
            # brackets balance when every closing tag carries the number of the opening tag it closes
            stack, j = [num], i + 1
            while j < n:
                c2, n2 = seq[j]
                if c2 == R.OPEN:
                    stack.append(n2)
                elif c2 == R.CLOSE:
                    if stack.pop() != n2:
                        return ("invalid",)
                    if not stack:
                        break
                j += 1
            if j >= n:
                return ("invalid",)
            if num == context:
                return ("group", i + 1, j)
            i = j
        elif cls == R.CLOSE:
            return ("invalid",)
        i += 1
    return ("none",)


def model_any(seq):
    """-> ('ok', consumed) | ('invalid',)"""
    # (a group is closed by the closing tag with its own number: counting depth alone - as the library did, and this model with
    #  it - takes open 1 ... close 2 for a balanced value)
    opened = []
    k = 0
    for cls, num in seq:
        if cls == R.OPEN:
            opened.append(num)
        elif cls == R.CLOSE:
            if not opened:
                return ("ok", k)
            if opened.pop() != num:
                return ("invalid",)
        k += 1
    return ("ok", k) if not opened else ("invalid",)


ALPHABET = [(R.APP, 2), (R.CTX, 0), (R.CTX, 1), (R.OPEN, 0), (R.OPEN, 1), (R.CLOSE, 0), (R.CLOSE, 1)]


def build(seq):
    out = []
    for k, (cls, num) in enumerate(seq):
        if cls == R.APP:
            out.append(ApplicationTag(num, bytes([k])))
        elif cls == R.CTX:
            out.append(ContextTag(num, bytes([k])))
        elif cls == R.OPEN:
            out.append(OpeningTag(num))
        else:
            out.append(ClosingTag(num))
    return out


def check_scratch_buffer(run, rng):
    """tags built from a bytearray the caller goes on using (one scratch buffer for several tags): a tag says what it was given
    when it was made, whatever happens to the buffer afterwards"""
    buf = bytearray()
    made = []
    for k in range(rng.randrange(2, 6)):
        del buf[:]
        buf.extend(bytes(rng.getrandbits(8) for _ in range(rng.choice([0, 1, 2, 5, 6, 40, 253, 254, 300]))))
        cls_ = rng.choice(["app", "ctx"])
        num = rng.choice([2, 6, 0, 14, 15, 200]) if cls_ == "ctx" else rng.choice([2, 6, 7])
        tag = ApplicationTag(num, buf) if cls_ == "app" else ContextTag(num, buf)
        made.append((tag, cls_, num, bytes(buf)))
    buf.extend(b"later")
    run.case(("scratch", len(made), made[0][2], len(made[0][3])), sample=None)
    run.count("scratch_buffer_lists")
    tl = TagList([m[0] for m in made])
    try:
        pdu = PDUData()
        tl.encode(pdu)
        out = bytes(pdu.pduData)
    except Exception as err:
        run.violation("tags-from-a-reused-buffer-not-encodable/" + type(err).__name__, {"tags": [(c, n, len(d)) for t, c, n, d in made]})
        return
    want = R.tlv_encode([(R.APP if c == "app" else R.CTX, n, len(d), d) for t, c, n, d in made])
    if out != want:
        run.violation("tag-data-changed-with-the-callers-buffer", {"tags": [(c, n, len(d)) for t, c, n, d in made], "got": out[:40], "want": want[:40]})


def check_nesting(run, seq):
    tags = build(seq)
    wit = {"sequence": ["%s%d" % (c, n) for c, n in seq]}
    for context in (0, 1):
        want = model_get_context(seq, context)
        BUDGET.arm(400 + 60 * len(seq))
        try:
            got = TagList(list(tags)).get_context(context)
            status = "ok"
        except InvalidTag:
            status = "invalid"
        except StepBudgetExceeded:
            BUDGET.disarm()
            run.violation("get_context-does-not-terminate", dict(wit, context=context))
            continue
        except Exception as err:
            BUDGET.disarm()
            run.violation("get_context-raised/" + type(err).__name__, dict(wit, context=context))
            continue
        BUDGET.disarm()
        run.count("get_context_compared")
        if want[0] == "invalid":
            if status != "invalid":
                run.violation("unbalanced-group-not-rejected", dict(wit, context=context))
        elif status == "invalid":
            run.violation("balanced-stream-rejected", dict(wit, context=context, model=want))
        elif want[0] == "none":
            if got is not None:
                run.violation("get_context-found-absent-element", dict(wit, context=context))
        elif want[0] == "tag":
            if got is not tags[want[1]]:
                run.violation("get_context-wrong-tag", dict(wit, context=context, model=want))
        else:
            exp = tags[want[1]:want[2]]
            if not isinstance(got, TagList) or len(got.tagList) != len(exp) or any(a is not b for a, b in zip(got.tagList, exp)):
                run.violation("get_context-wrong-group", dict(wit, context=context, model=want))
    # Any.decode
    want = model_any(seq)
    tl = TagList(list(tags))
    a = Any()
    BUDGET.arm(400 + 60 * len(seq))
    try:
        a.decode(tl)
        status = "ok"
    except (DecodingError, InvalidTag):
        status = "invalid"
    except StepBudgetExceeded:
        BUDGET.disarm()
        run.violation("Any.decode-does-not-terminate", wit)
        return
    except Exception as err:
        BUDGET.disarm()
        run.violation("Any.decode-raised/" + type(err).__name__, wit)
        return
    BUDGET.disarm()
    run.count("any_decode_compared")
    if want[0] == "invalid":
        if status != "invalid":
            run.violation("Any.decode-accepted-unbalanced", wit)
        return
    if status == "invalid":
        run.violation("Any.decode-rejected-balanced", dict(wit, model=want))
        return
    k = want[1]
    if len(a.tagList.tagList) != k or any(x is not y for x, y in zip(a.tagList.tagList, tags[:k])) \
            or len(tl.tagList) != len(tags) - k or any(x is not y for x, y in zip(tl.tagList, tags[k:])):
        run.violation("Any.decode-consumed-wrong-prefix", dict(wit, consumed=len(a.tagList.tagList), model=k))
        return
    # Any.encode gives the same tags back
    out = TagList()
    a.encode(out)
    if [tup(t) for t in out.tagList] != [tup(t) for t in tags[:k]]:
        run.violation("Any.encode-differs", wit)


def random_nesting(rng, depth):
    seq = []

    def gen(d):
        for _ in range(rng.randrange(0, 4)):
            r = rng.random()
            if r < 0.35 and d < depth:
                n = rng.randrange(2)
                seq.append((R.OPEN, n))
                gen(d + 1)
                if rng.random() < 0.92:
                    seq.append((R.CLOSE, n if rng.random() < 0.9 else 1 - n))
            elif r < 0.7:
                seq.append((R.CTX, rng.randrange(2)))
            elif r < 0.95:
                seq.append((R.APP, 2))
            else:
                seq.append((R.CLOSE, rng.randrange(2)))
    gen(0)
    return seq


# ----------------------------------------------------------------------

def main():
    global BUDGET
    run = Run("C02", "exploration", RULE, assumptions=[
        "rv/refcodec.tlv_parse/tlv_encode (from clause 20.2.1) is the reference for streams the standard allows",
        "for streams the standard forbids (application class with LVT 6/7, Boolean LVT>1, reserved number 255) the "
        "statement allows either a refusal or a list that is stable under re-encoding; both are accepted",
        "group balance is judged on nesting depth; the statement does not say what a close tag with another number means"])
    if run.tier == "replay":
        return replay(run)
    thorough = run.tier == "thorough"
    if thorough and run.args.shard is None:
        run.run_shards("rv.props.c02")
        run.exhaustive = True
        return run.finish(require=("lists_decoded", "accepted", "rejected", "agreed_with_reference",
                                   "get_context_compared", "any_decode_compared"))
    BUDGET = LineBudget([TagList.decode, TagList.get_context, Any.decode])
    if not BUDGET.active:
        run.inconclusive_because("sys.monitoring not available: no termination budget")
    rng = run.rng("c02")
    idx = 0

    # (a) cross product, single tags then lists
    if run.want("lists"):
        singles = []
        for cls in (R.APP, R.CTX, R.OPEN, R.CLOSE):
            for num in NUMBERS:
                for ln in (LENGTHS if cls in (R.APP, R.CTX) else [0]):
                    idx += 1
                    singles.append((cls, num, ln))
                    if run.mine(idx):
                        t = make_tag(cls, num, ln, idx)
                        run.case(("single", cls, num, ln), sample={"tag": (cls, num, ln)}, sample_key=("a", cls))
                        check_list(run, [t], {"tags": [(cls, num, ln)]})
        small = [s for s in singles if s[2] <= 256]
        nlists = 20000 if thorough else 2500
        for _ in range(nlists):
            idx += 1
            desc = [rng.choice(small if rng.random() < 0.97 else singles) for _ in range(rng.randrange(0, 7))]
            if not run.mine(idx):
                continue
            run.case(("list", tuple(desc)))
            check_list(run, [make_tag(c, n, l, rng.randrange(256)) for c, n, l in desc], {"tags": desc})

    # (b) exhaustive short strings
    if run.want("octets"):
        maxlen = 3 if thorough else 2
        for ln in range(0, maxlen + 1):
            if ln <= 2:
                space = itertools.product(range(256), repeat=ln)
                for k, t in enumerate(space):
                    if run.mine(k):
                        run.bulk(1)
                        check_octets(run, bytes(t))
            else:
                # 3 octets: shard on the first octet
                for a in range(256):
                    if not run.mine(a):
                        continue
                    for b in range(256):
                        for c in range(256):
                            check_octets(run, bytes((a, b, c)))
                    run.bulk(65536)
        run.sample({"octets_exhaustive_up_to_length": maxlen})
        # mutants of valid streams
        nmut = 400 if thorough else 60
        for _ in range(nmut):
            idx += 1
            desc = [(rng.choice((R.APP, R.CTX, R.OPEN, R.CLOSE)), rng.choice(NUMBERS), rng.choice([0, 1, 2, 4, 5, 6, 20]))
                    for _ in range(rng.randrange(1, 5))]
            if not run.mine(idx):
                continue
            valid = R.tlv_encode([tup(make_tag(c, n, l, 7)) for c, n, l in desc])
            subs = (0x00, 0xFF, 0x05, 0x0E, 0x0F, 0x15, 0xF5, 0xFE)
            for pos in range(len(valid) + 1):
                muts = [valid[:pos]]                                        # truncation
                for s in subs:
                    muts.append(valid[:pos] + bytes([s]) + valid[pos:])     # insertion
                    if pos < len(valid):
                        muts.append(valid[:pos] + bytes([s]) + valid[pos + 1:])   # substitution
                if pos < len(valid):
                    for bit in range(8):
                        muts.append(valid[:pos] + bytes([valid[pos] ^ (1 << bit)]) + valid[pos + 1:])
                for m in muts:
                    run.case(m)
                    check_octets(run, m)
        nrand = 200000 if thorough else 20000
        for _ in range(nrand // run.shard[1]):
            n = rng.randrange(3, 65)
            o = bytes(rng.getrandbits(8) for _ in range(n))
            run.case(o)
            check_octets(run, o)
        # long length escapes that claim more than is there / exactly what is there
        for claim, have in ((70000, 70000), (70000, 69999), (65536, 65536), (65535, 65535), (0xFFFFFFFF, 10), (254, 254), (253, 253)):
            idx += 1
            if not run.mine(idx):
                continue
            hdr = R.tlv_header(R.CTX, 3, claim)
            o = hdr + bytes(have)
            run.case(("claim", claim, have))
            check_octets(run, o, {"claimed_length": claim, "available": have})

    # (c) nesting
    if run.want("nesting"):
        maxn = 7 if thorough else 6
        k = 0
        for n in range(0, maxn + 1):
            for seq in itertools.product(ALPHABET, repeat=n):
                k += 1
                if not run.mine(k):
                    continue
                run.bulk(1)
                check_nesting(run, list(seq))
        run.sample({"nesting_sequences_exhaustive_up_to_length": maxn, "alphabet": ["%s%d" % a for a in ALPHABET]})
        for _ in range((60000 if thorough else 6000) // run.shard[1]):
            seq = random_nesting(rng, 4)
            run.case(("nest", tuple(seq)))
            check_nesting(run, seq)
    for _ in range((4000 if thorough else 400) // run.shard[1]):
        check_scratch_buffer(run, rng)
    run.extra["budget_lines_observed"] = BUDGET.total
    run.exhaustive = True
    run.finish(require=("lists_decoded", "accepted", "rejected", "agreed_with_reference",
                        "get_context_compared", "any_decode_compared"))


def replay(run):
    global BUDGET
    import json
    BUDGET = LineBudget([TagList.decode, TagList.get_context, Any.decode])
    with open(run.replay_path) as f:
        w = json.load(f)["witness"]
    if "sequence" in w:
        seq = [(s.rstrip("0123456789"), int(s[len(s.rstrip("0123456789")):])) for s in w["sequence"]]
        check_nesting(run, seq)
    elif "octets" in w:
        check_octets(run, bytes.fromhex(w["octets"][4:]))
    elif "tags" in w:
        check_list(run, [make_tag(c, n, l, 7) for c, n, l in w["tags"]], w)
    run.finish()


if __name__ == "__main__":
    main_guard(main)
