"""
C20  A schedule shows the value its calendar dictates at every instant, never stale.

Oracle: a direct interpreter written from clause 12.24 and calendar arithmetic
from datetime/calendar.  (1) date matchers over every calendar date; (2) eval()
of random schedules at every minute of sampled days, incl. the next-transition
promise; (3) timer-driven LocalScheduleObjects under the virtual clock.
"""

import time
import calendar
import datetime
import itertools

from .. import common
from ..common import Run, main_guard

common.bootstrap()

from ..vclock import clock, StepBudgetExceeded
from ..budget import LineBudget, StepBudgetExceeded as LineBudgetExceeded

from bacpypes.primitivedata import Null, Integer, Real, Date, Time
from bacpypes.constructeddata import ArrayOf, ListOf, SequenceOf
from bacpypes.basetypes import DailySchedule, DateRange, TimeValue, SpecialEvent, SpecialEventPeriod, CalendarEntry
from bacpypes.object import CalendarObject
from bacpypes.app import Application
from bacpypes.local.device import LocalDeviceObject
from bacpypes.local import schedule as S
from bacpypes.local.schedule import LocalScheduleObject

RULE = ("(1) match_date / match_weeknday / match_date_range / date_in_calendar_entry on every calendar date of 20 sampled "
        "years (quick) / all of 1900..2154 (thorough) x a pattern set covering any/odd/even month, last/odd/even day, "
        "specific fields, day of week, week-of-month 1..9, closed and open-ended ranges; (2) random schedules (0..4 "
        "exceptions x 0..4 time-values with date, range, week-and-day and calendar-reference periods, 0..4 weekly entries "
        "per day, relinquish entries, narrow/open effective periods) evaluated at every minute of sampled days incl. "
        "23:59 and 00:00 and at every listed time +-1 min, with the no-change-before-next-transition promise checked "
        "minute by minute; (3) timer-driven objects over 3..10 virtual days, probed at every transition +-1 s and on a "
        "7-minute grid, across midnight and across the edges of the effective period.  distinct = distinct (pattern, "
        "date) pairs / (schedule, instant) pairs")

CLK = clock()


# ----------------------------------------------------------------------
# reference calendar arithmetic (20.2.12, 21 BACnetWeekNDay, BACnetDateRange)
# ----------------------------------------------------------------------

def ref_match_date(d, p):
    """d: datetime.date, p: (year-1900|255, month|13|14|255, day|32|33|34|255, dow|255)"""
    yp, mp, dp, wp = p
    if yp != 255 and d.year - 1900 != yp:
        return False
    if mp == 13:
        if d.month % 2 != 1:
            return False
    elif mp == 14:
        if d.month % 2 != 0:
            return False
    elif mp != 255 and d.month != mp:
        return False
    last = calendar.monthrange(d.year, d.month)[1]
    if dp == 32:
        if d.day != last:
            return False
    elif dp == 33:
        if d.day % 2 != 1:
            return False
    elif dp == 34:
        if d.day % 2 != 0:
            return False
    elif dp != 255 and d.day != dp:
        return False
    if wp != 255 and d.isoweekday() != wp:
        return False
    return True


def ref_match_weeknday(d, w):
    mp, wk, wp = w
    if mp == 13:
        if d.month % 2 != 1:
            return False
    elif mp == 14:
        if d.month % 2 != 0:
            return False
    elif mp != 255 and d.month != mp:
        return False
    last = calendar.monthrange(d.year, d.month)[1]
    if wk != 255:
        if 1 <= wk <= 5:
            lo, hi = (wk - 1) * 7 + 1, min(wk * 7, 31)
        else:
            k = wk - 6                  # 6: last 7 days, 7: the 7 days before them ...
            hi = last - 7 * k
            lo = hi - 6
        if not (lo <= d.day <= hi):
            return False
    if wp != 255 and d.isoweekday() != wp:
        return False
    return True


def ref_match_range(d, start, end):
    """start/end: (y, m, d, dow) with all-255 meaning unbounded"""
    t = (d.year - 1900, d.month, d.day)
    if tuple(start[:3]) != (255, 255, 255) and t < tuple(start[:3]):
        return False
    if tuple(end[:3]) != (255, 255, 255) and t > tuple(end[:3]):
        return False
    return True


def lib_date(d):
    return (d.year - 1900, d.month, d.day, d.isoweekday())


# ----------------------------------------------------------------------
# reference interpreter (12.24.4 - 12.24.9)
# ----------------------------------------------------------------------

class Sched:
    """plain-data description of a schedule; built into library objects by build()"""

    def __init__(self):
        self.effective = ((0, 1, 1, 255), (254, 12, 31, 255))
        self.weekly = None                 # list of 7 lists of (time4, value|None)
        self.exceptions = []               # list of dict(period=('date', p)|('range', s, e)|('wnd', w)|('cal', [entries]), prio, tv=[(time4, value|None)])
        self.default = -1

    def describe(self):
        return {"effective": self.effective, "weekly": self.weekly, "exceptions": self.exceptions, "default": self.default}


def period_matches(d, period):
    k = period[0]
    if k == "date":
        return ref_match_date(d, period[1])
    if k == "range":
        return ref_match_range(d, period[1], period[2])
    if k == "wnd":
        return ref_match_weeknday(d, period[1])
    if k == "cal":
        return any(period_matches(d, e) for e in period[1])
    raise ValueError(k)


def equal_priorities(s):
    ps = [e["prio"] for e in s.exceptions]
    return len(set(ps)) != len(ps)


def ref_eval_any(s, d, t):
    """the values the statement allows: exceptions of equal priority may be ranked either way (the statement speaks of "the"
    highest-priority exception); what is in force is then the latest non-relinquished entry of the first in rank that has one"""
    if not equal_priorities(s):
        return {ref_eval(s, d, t)}
    return {ref_eval(s, d, t, tie=1), ref_eval(s, d, t, tie=-1)}


def ref_eval(s, d, t, tie=1):
    """value at date d (datetime.date) and time t (h, m, s, hundredths); None outside the effective period"""
    if not ref_match_range(d, s.effective[0], s.effective[1]):
        return None
    for k, ex in sorted(enumerate(s.exceptions), key=lambda ke: (ke[1]["prio"], tie * ke[0])):
        if not period_matches(d, ex["period"]):
            continue
        cur = None
        for tv, val in ex["tv"]:
            if tuple(tv) <= tuple(t):
                cur = val
        if cur is not None:
            return cur
    if s.weekly:
        cur = None
        for tv, val in s.weekly[d.isoweekday() - 1]:
            if tuple(tv) <= tuple(t):
                cur = val
        if cur is not None:
            return cur
    return s.default


# ----------------------------------------------------------------------
# building library objects from a Sched
# ----------------------------------------------------------------------

def V(x):
    return Null() if x is None else Integer(x)


def cal_entry(e):
    if e[0] == "date":
        return CalendarEntry(date=tuple(e[1]))
    if e[0] == "range":
        return CalendarEntry(dateRange=DateRange(startDate=tuple(e[1]), endDate=tuple(e[2])))
    return CalendarEntry(weekNDay=bytes(e[1]))


def build(s, with_app=None):
    """-> (schedule object, application or None)"""
    need_app = any(ex["period"][0] == "cal" for ex in s.exceptions) if with_app is None else with_app
    app = None
    if need_app:
        dev = LocalDeviceObject(objectName="dev", objectIdentifier=("device", 1), maxApduLengthAccepted=1024,
                                segmentationSupported="segmentedBoth", vendorIdentifier=999)
        app = Application(dev)
    kw = dict(objectIdentifier=("schedule", 1), objectName="sched", presentValue=Integer(-99),
              effectivePeriod=DateRange(startDate=tuple(s.effective[0]), endDate=tuple(s.effective[1])),
              scheduleDefault=Integer(s.default))
    if s.weekly is not None:
        kw["weeklySchedule"] = ArrayOf(DailySchedule)([
            DailySchedule(daySchedule=[TimeValue(time=tuple(tv), value=V(val)) for tv, val in day]) for day in s.weekly])
    exs = []
    ncal = 0
    for ex in s.exceptions:
        if ex["period"][0] == "cal":
            ncal += 1
            co = CalendarObject(objectIdentifier=("calendar", ncal), objectName="cal%d" % ncal,
                                dateList=ListOf(CalendarEntry)([cal_entry(e) for e in ex["period"][1]]))
            app.add_object(co)
            period = SpecialEventPeriod(calendarReference=("calendar", ncal))
        else:
            period = SpecialEventPeriod(calendarEntry=cal_entry(ex["period"]))
        exs.append(SpecialEvent(period=period, listOfTimeValues=[TimeValue(time=tuple(tv), value=V(val)) for tv, val in ex["tv"]],
                                eventPriority=ex["prio"]))
    if s.exceptions or s.weekly is None:
        kw["exceptionSchedule"] = ArrayOf(SpecialEvent)(exs)
    so = LocalScheduleObject(**kw)
    if app:
        app.add_object(so)
    return so, app


# ----------------------------------------------------------------------
# generators
# ----------------------------------------------------------------------

def rand_times(rng, n):
    pts = set()
    while len(pts) < n:
        r = rng.random()
        if r < 0.15:
            pts.add((0, 0, 0, 0))
        elif r < 0.3:
            pts.add((23, 59, 0, 0))
        elif r < 0.4:
            pts.add((23, 59, 59, 0))
        else:
            # (hundredths of a second are part of a time value)
            pts.add((rng.randrange(24), rng.choice([0, 0, 15, 30, 59, rng.randrange(60)]), rng.choice([0, 0, 0, 30]),
                     rng.choice([0, 0, 0, 0, 0, 0, 1, 50, 99])))
    return sorted(pts)


def rand_period(rng, day):
    """a period likely to match (or just miss) the given date"""
    r = rng.random()
    y, m, d, w = lib_date(day)
    if r < 0.3:
        p = [rng.choice([y, 255, y + 1 if y < 254 else y]), rng.choice([m, 255, 13, 14, (m % 12) + 1]),
             rng.choice([d, 255, 32, 33, 34, 1]), rng.choice([255, 255, w, (w % 7) + 1])]
        return ("date", tuple(p))
    if r < 0.55:
        a = day - datetime.timedelta(days=rng.choice([0, 1, 3, 40]))
        b = day + datetime.timedelta(days=rng.choice([0, 1, 2, 400]))
        if rng.random() < 0.15:
            return ("range", (255, 255, 255, 255), lib_date(b))
        if rng.random() < 0.15:
            return ("range", lib_date(a), (255, 255, 255, 255))
        return ("range", lib_date(a), lib_date(b))
    if r < 0.8:
        return ("wnd", (rng.choice([255, m, 13, 14]), rng.choice([255, 1, 2, 3, 4, 5, 6, 7, 8, 9, (d - 1) // 7 + 1]), rng.choice([255, w, (w % 7) + 1])))
    # (a referenced calendar may be empty: then the exception is never in force)
    return ("cal", [rand_period(rng, day + datetime.timedelta(days=rng.choice([0, 0, 1, -1]))) for _ in range(rng.choice([0, 0, 1, 1, 2, 3]))])


def rand_sched(rng, day, allow_cal=True):
    s = Sched()
    s.default = rng.choice([-1, 0, 7])
    vals = [1, 2, 3, 4, 5, 6, 8, 9, None, None]
    if rng.random() < 0.85:
        s.weekly = [[(t, rng.choice(vals)) for t in rand_times(rng, rng.randrange(0, 5))] for _ in range(7)]
    nex = rng.randrange(0, 5) if s.weekly is not None else rng.randrange(1, 5)
    prios = rng.sample(range(1, 17), nex)
    if nex >= 2 and rng.random() < 0.2:
        prios = [rng.choice(prios[:2]) for _ in range(nex)]          # several exceptions of the same priority
    for i in range(nex):
        per = rand_period(rng, day)
        while per[0] == "cal" and (not allow_cal or any(e[0] == "cal" for e in per[1])):
            per = rand_period(rng, day)
        s.exceptions.append({"period": per, "prio": prios[i], "tv": [(t, rng.choice(vals) if rng.random() < 0.8 else 10 + i) for t in rand_times(rng, rng.randrange(0, 5))]})
    r = rng.random()
    if r < 0.15:
        a = day + datetime.timedelta(days=rng.choice([-1, 0, 1, 2]))
        b = a + datetime.timedelta(days=rng.choice([0, 1, 2, 30]))
        s.effective = (lib_date(a)[:3] + (255,), lib_date(b)[:3] + (255,))
    elif r < 0.25:
        s.effective = ((255, 255, 255, 255), (254, 12, 31, 255))
    elif r < 0.35:
        s.effective = ((0, 1, 1, 255), (255, 255, 255, 255))
    elif r < 0.4:
        s.effective = ((255, 255, 255, 255), (255, 255, 255, 255))
    return s


# ----------------------------------------------------------------------
# checks
# ----------------------------------------------------------------------

def check_matchers(run, years, patterns, wnds, ranges):
    for y in years:
        d = datetime.date(y, 1, 1)
        while d.year == y:
            ld = lib_date(d)
            for p in patterns:
                want = ref_match_date(d, p)
                try:
                    got = S.match_date(ld, p)
                except Exception as err:
                    run.violation("match_date-raised/" + type(err).__name__, {"date": str(d), "pattern": p})
                    got = want
                if bool(got) != want:
                    run.violation("date-pattern-matches-wrong-dates/%s" % ("month" if p[1] in (13, 14) else "day" if p[2] in (32, 33, 34) else "field"),
                                  {"date": str(d), "pattern": p, "library": bool(got), "calendar": want})
            for w in wnds:
                want = ref_match_weeknday(d, w)
                got = S.match_weeknday(ld, bytes(w))
                if bool(got) != want:
                    run.violation("week-and-day-pattern-matches-wrong-dates/week%d" % w[1], {"date": str(d), "pattern": w, "library": bool(got), "calendar": want})
            for a, b in ranges:
                want = ref_match_range(d, a, b)
                got = S.match_date_range(ld, DateRange(startDate=tuple(a), endDate=tuple(b)))
                if bool(got) != want:
                    kind = "open-start" if tuple(a[:3]) == (255, 255, 255) else "open-end" if tuple(b[:3]) == (255, 255, 255) else "closed"
                    run.violation("date-range-matches-wrong-dates/" + kind, {"date": str(d), "range": [a, b], "library": bool(got), "calendar": want})
            n = len(patterns) + len(wnds) + len(ranges)
            run.bulk(n)
            run.count("matcher_results_compared", n)
            d += datetime.timedelta(days=1)


def probe_times(s, rng, every_minute):
    pts = set()
    if every_minute:
        for h in range(24):
            for m in range(60):
                pts.add((h, m, 0, 0))
    lists = [ex["tv"] for ex in s.exceptions] + (s.weekly or [])
    for lst in lists:
        for tv, _ in lst:
            sec = tv[0] * 3600 + tv[1] * 60 + tv[2]
            for dlt in (-60, -1, 0, 1, 60):
                x = sec + dlt
                if 0 <= x < 86400:
                    pts.add((x // 3600, (x // 60) % 60, x % 60, 0))
    pts |= {(0, 0, 0, 0), (23, 59, 0, 0), (23, 59, 59, 99), (12, 0, 0, 50)}
    return sorted(pts)


def secs(t):
    return t[0] * 3600 + t[1] * 60 + t[2] + t[3] / 100.0


def check_eval(run, s, so, day, rng, every_minute):
    interp = so._task
    ld = lib_date(day)
    wit = {"schedule": s.describe(), "date": str(day)}
    pts = probe_times(s, rng, every_minute)
    refvals = [ref_eval(s, day, t) for t in pts]
    tie = equal_priorities(s)
    if tie:
        # with exceptions of equal priority two rankings are allowed; the promise "no change before the reported next transition"
        # is then judged on the values the library itself reports at the later instants
        run.count("schedules_with_exceptions_of_equal_priority")
        try:
            own = [interp.eval(ld, t) for t in pts]
        except Exception as err:
            run.violation("eval-raised/" + type(err).__name__, dict(wit, error=repr(err)[:100]))
            return
        refvals = [None if r is None else getattr(r[0], "value", r[0]) for r in own]
    # index of the first later probe instant at which the interpreter's value differs
    nxt_change = [None] * len(pts)
    for i in range(len(pts) - 2, -1, -1):
        nxt_change[i] = (i + 1) if refvals[i + 1] != refvals[i] else nxt_change[i + 1]
    for i, t in enumerate(pts):
        want = refvals[i]
        if tie:
            allowed = ref_eval_any(s, day, t)
            if None in allowed:
                want = None
            elif want is not None and want not in allowed:
                run.violation("evaluated-value-differs-from-interpreter/exceptions-of-equal-priority", dict(wit, time=t, library=want, allowed=sorted(allowed)))
                return
        try:
            res = interp.eval(ld, t)
        except Exception as err:
            run.violation("eval-raised/" + type(err).__name__, dict(wit, time=t, error=repr(err)[:100]))
            return
        run.count("evaluations_compared")
        if want is None:
            run.count("outside_effective_period")
            continue            # outside the effective period nothing particular is demanded
        if res is None:
            run.violation("schedule-inside-effective-period-not-evaluated", dict(wit, time=t, expected=want))
            return
        val, nxt = res
        got = getattr(val, "value", val)
        if got != want:
            run.violation("evaluated-value-differs-from-interpreter", dict(wit, time=t, library=got, interpreter=want))
            return
        # the value must not change before the reported next transition
        if not (isinstance(nxt, (tuple, list)) and len(nxt) == 4 and all(isinstance(x, int) for x in nxt)):
            run.violation("next-transition-is-not-a-time", dict(wit, time=t, next=repr(nxt)[:40]))
            return
        nt = secs(tuple(nxt))
        if nt <= secs(t):
            run.violation("next-transition-not-in-the-future", dict(wit, time=t, next=list(nxt)))
            return
        j = nxt_change[i]
        if j is not None and secs(pts[j]) < nt:
            run.violation("value-changes-before-reported-next-transition", dict(wit, time=t, next=list(nxt), changes_at=pts[j],
                                                                                value=want, becomes=refvals[j]))
            return
        run.count("transition_promises_checked")


GUARD = {"calls": 0, "at": None}


def set_zone(zone):
    import os
    import time
    os.environ["TZ"] = zone
    time.tzset()


def local_epoch(day, h=0, m=0, sec=0):
    """epoch seconds of a wall-clock time of the process' time zone (UTC unless a run says otherwise)"""
    import time
    return int(time.mktime((day.year, day.month, day.day, h, m, sec, 0, 0, -1)))


def local_wall(T):
    import time
    lt = time.localtime(T)
    return datetime.date(lt.tm_year, lt.tm_mon, lt.tm_mday), (lt.tm_hour, lt.tm_min, lt.tm_sec, int((T - int(T)) * 100 + 1e-4))


def timer_run(run, s, start_day, ndays, rng, with_app, zone=None):
    """a LocalScheduleObject driven by its own timer under the virtual clock.  zone: run in this time zone (one with daylight
    saving time, on days away from the switches): the schedule is written in local wall-clock time"""
    if zone:
        set_zone(zone)
    try:
        return _timer_run(run, s, start_day, ndays, rng, with_app, zone)
    finally:
        if zone:
            set_zone("UTC")


def _timer_run(run, s, start_day, ndays, rng, with_app, zone):
    CLK.reset()
    t0 = local_epoch(start_day) + rng.choice([0, 1, 3600 * 5 + 17, 86399])
    CLK.now = float(t0)
    if rng.random() < 0.3:
        # a clock that moves while the code runs (every reading of it takes a few milliseconds), started a moment before
        # midnight: date and time of day are two readings, and midnight may fall between them
        CLK.tick = rng.choice([0.001, 0.004])
        t0 = float(local_epoch(start_day) + 86400) - CLK.tick * (rng.randrange(0, 8) + 0.5)
        CLK.now = t0
        run.count("timer_runs_on_a_clock_that_moves_between_readings")
    wit = {"schedule": s.describe(), "start": str(start_day), "days": ndays, "with_app": bool(with_app), "time_zone": zone or "UTC"}
    try:
        so, app = build(s, with_app)
    except Exception as err:
        run.count("cannot_build")
        return
    if so.reliability != "noFaultDetected":
        run.count("configuration_rejected_by_library")
        return
    end = t0 + ndays * 86400
    # probe instants: 7-minute grid + every listed time +-1 s on every day
    probes = set(range(int(t0) + 1, int(end), 420))
    lists = [ex["tv"] for ex in s.exceptions] + (s.weekly or [])
    for dd in range(ndays + 1):
        day = start_day + datetime.timedelta(days=dd)
        day0 = local_epoch(day)
        for lst in lists:
            for tv, _ in lst:
                x = local_epoch(day, tv[0], tv[1], tv[2])
                for dlt in (-1, 0, 1):
                    if t0 < x + dlt < end:
                        probes.add(x + dlt)
        for x in (day0 - 1, day0, day0 + 1):
            if t0 < x < end:
                probes.add(x)
    seen_inside = False
    # the configuration is rewritten a few times while the schedule runs (one weekday's list through its array index, or the
    # whole weekly schedule): what is shown follows the new configuration from that instant on
    rewrites = {}
    if s.weekly is not None and app is not None and rng.random() < 0.6:        # (an object outside an application is not re-evaluated on writes)
        for T in rng.sample(sorted(probes), min(len(probes), rng.choice([1, 2, 4]))):
            rewrites[T] = (rng.randrange(7), [(t, rng.choice([1, 2, 3, 4, 5, 6, 8, 9, None])) for t in rand_times(rng, rng.randrange(0, 5))],
                           rng.random() < 0.3)
    # ... and once it is written wrongly (values of another datatype: the object reports a configuration error) and repaired
    # later: from the repair on the schedule runs again
    faults = {}
    if rewrites and len(probes) > 4 and rng.random() < 0.5:
        free = [T for T in sorted(probes) if T not in rewrites]
        if len(free) >= 2:
            i = rng.randrange(len(free) - 1)
            j = rng.randrange(i + 1, min(len(free), i + 1 + rng.choice([1, 3, 40])))
            faults[free[i]] = "break"
            faults[free[j]] = "repair"
            rewrites = {T: v for T, v in rewrites.items() if not (free[i] <= T <= free[j])}
    faulty = False
    wit["rewrites"] = {}
    import heapq
    heap = sorted(probes)
    heapq.heapify(heap)
    done_T = set()
    while heap:
        T = heapq.heappop(heap)
        if T in done_T:
            continue
        done_T.add(T)
        try:
            CLK.drive(until=float(T), max_steps=20000)
            if T in faults:
                wall_date, wall_time = local_wall(T)
                wd = wall_date.isoweekday() - 1
                wit["rewrites"]["%s %02d:%02d:%02d" % ((wall_date,) + wall_time[:3])] = "weekday %d written with values of another datatype" % wd \
                    if faults[T] == "break" else "weekday %d written as it was" % wd
                if faults[T] == "break":
                    faults["wd"] = wd
                    so.WriteProperty("weeklySchedule", DailySchedule(daySchedule=[TimeValue(time=(12, 0, 0, 0), value=Real(1.5))]), arrayIndex=wd + 1, direct=True)
                    faulty = True
                    if so.reliability == "noFaultDetected":
                        run.violation("wrong-datatype-in-schedule-not-reported-as-fault", dict(wit, at=T))
                        return
                    run.count("schedules_broken_while_running")
                else:
                    wd = faults["wd"]
                    so.WriteProperty("weeklySchedule", DailySchedule(daySchedule=[TimeValue(time=tuple(tv), value=V(val)) for tv, val in s.weekly[wd]]),
                                     arrayIndex=wd + 1, direct=True)
                    faulty = False
                    if so.reliability != "noFaultDetected":
                        run.violation("repaired-schedule-still-reported-faulty", dict(wit, at=T, reliability=str(so.reliability)))
                        return
                    run.count("schedules_repaired_while_running")
                    heapq.heappush(heap, T + 1)
                continue
            if T in rewrites:
                wd, lst, whole = rewrites[T]
                s.weekly[wd] = lst
                wall_date, wall_time = local_wall(T)
                wit["rewrites"]["%s %02d:%02d:%02d" % ((wall_date,) + wall_time[:3])] = {"weekday_index": wd, "list": lst, "whole_property": whole}
                for dd in range(0, 8):
                    day = wall_date + datetime.timedelta(days=dd)
                    for tv, _v in lst:
                        for d_ in (0, 1):
                            extra = local_epoch(day, tv[0], tv[1], tv[2]) + d_
                            if T < extra < end:
                                heapq.heappush(heap, extra)
                heapq.heappush(heap, T + 1)
                if whole:
                    so.WriteProperty("weeklySchedule", ArrayOf(DailySchedule)([
                        DailySchedule(daySchedule=[TimeValue(time=tuple(tv), value=V(val)) for tv, val in day]) for day in s.weekly]), direct=True)
                else:
                    so.WriteProperty("weeklySchedule", DailySchedule(daySchedule=[TimeValue(time=tuple(tv), value=V(val)) for tv, val in lst]),
                                     arrayIndex=wd + 1, direct=True)
                run.count("schedule_rewrites_while_running")
                continue

        except StepBudgetExceeded as err:
            run.violation("schedule-timer-spins", dict(wit, at=T, error=str(err)))
            return
        except LineBudgetExceeded as err:
            run.violation("schedule-timer-spins", dict(wit, at=T, error=str(err)))
            return
        except Exception as err:
            run.violation("rewriting-a-running-schedule-raised/" + type(err).__name__, dict(wit, at=T, error=repr(err)[:120]))
            return
        if faulty:
            run.count("timer_probes_skipped_while_the_configuration_is_faulty")
            continue
        # (on a clock that moves while the code runs the probe is a few milliseconds after T)
        wall_date, wall_time = local_wall(max(float(T), CLK.now))
        dt = "%s %02d:%02d:%02d.%02d" % ((wall_date,) + wall_time)
        want = ref_eval(s, wall_date, wall_time)
        if want is not None and equal_priorities(s):
            allowed = ref_eval_any(s, wall_date, wall_time)
            cur = getattr(so.presentValue, "value", so.presentValue)
            want = cur if cur in allowed else want
        run.count("timer_probes")
        if zone:
            run.count("timer_probes_in_a_zone_with_daylight_saving_time")
        if want is None:
            continue
        seen_inside = True
        got = getattr(so.presentValue, "value", so.presentValue)
        if got != want:
            spun = [r for r in CLK.swallowed.records]
            run.violation("timer-driven-present-value-stale" + ("/after-swallowed-" + spun[0]["exc"] if spun and spun[0]["exc"] else ""),
                          dict(wit, at=str(dt), present_value=got, interpreter=want, swallowed=spun[:2]))
            return
    if seen_inside:
        run.count("timer_runs")
    else:
        run.count("timer_runs_never_inside_effective_period")


def main():
    run = Run("C20", "exploration", RULE, assumptions=[
        "TZ=UTC for the evaluations; a fifth of the timer-driven runs switch the process to a zone with daylight saving time "
        "(time.tzset) on days away from the switch dates; calendar/datetime/time (standard library) are the calendar reference",
        "outside the effective period no value is demanded, only that the interpreter keeps running and is right again inside",
        "time lists are strictly increasing; a tenth of the listed times have non-zero hundredths; a fifth of the schedules with several "
        "exceptions give some of them the same priority: either ranking among those is accepted for the value, and the no-change "
        "promise is then judged on the library's own later values",
        "a date range bound of all-255 means unbounded; partly wildcarded range bounds are not generated"])
    if run.tier == "replay":
        run.inconclusive_because("replay: re-run the tier with the same VERIF_SEED (cases are derived from it)")
        return run.finish()
    thorough = run.tier == "thorough"
    if thorough and run.args.shard is None:
        run.run_shards("rv.props.c20")
        return run.finish(require=("matcher_results_compared", "evaluations_compared", "transition_promises_checked", "timer_probes", "timer_runs"))
    rng = run.rng("c20")

    # (1) matchers
    if run.want("match"):
        all_years = list(range(1900, 2155))
        if thorough:
            years = [y for i, y in enumerate(all_years) if run.mine(i)]
        else:
            years = sorted(set([1900, 1904, 1999, 2000, 2023, 2024, 2100, 2154] + rng.sample(all_years, 12)))
        patterns = []
        for mp in (255, 13, 14, 1, 2, 6, 12):
            for dp in (255, 32, 33, 34, 1, 15, 28, 29, 30, 31):
                patterns.append((255, mp, dp, 255))
        for wp in range(1, 8):
            patterns.append((255, 255, 255, wp))
            patterns.append((255, 13, 33, wp))
            patterns.append((255, 2, 32, wp))
        for yp in (0, 100, 124, 254):
            patterns.append((yp, 255, 255, 255))
            patterns.append((yp, 2, 29, 255))
            patterns.append((yp, 14, 34, 5))
        wnds = [(mp, wk, wp) for mp in (255, 13, 14, 2, 12) for wk in (255, 1, 2, 3, 4, 5, 6, 7, 8, 9) for wp in (255, 1, 7)]
        ranges = [((100, 1, 1, 255), (100, 12, 31, 255)), ((0, 1, 1, 255), (254, 12, 31, 255)), ((124, 2, 28, 255), (124, 3, 1, 255)),
                  ((124, 2, 29, 255), (124, 2, 29, 255)), ((255, 255, 255, 255), (124, 6, 15, 255)), ((124, 6, 15, 255), (255, 255, 255, 255)),
                  ((255, 255, 255, 255), (255, 255, 255, 255)), ((150, 6, 1, 255), (100, 6, 1, 255))]
        run.sample({"date_patterns": len(patterns), "week_and_day_patterns": len(wnds), "ranges": ranges[:5], "years": years[:8]})
        check_matchers(run, years, patterns, wnds, ranges)
        # date_in_calendar_entry dispatch
        for d in (datetime.date(2024, 2, 29), datetime.date(2023, 12, 31), datetime.date(2000, 1, 1)):
            for e in (("date", (255, 14, 255, 255)), ("range", (100, 1, 1, 255), (130, 1, 1, 255)), ("wnd", (255, 6, 255))):
                want = period_matches(d, e)
                got = S.date_in_calendar_entry(lib_date(d), cal_entry(e))
                run.case(("dice", str(d), e))
                if bool(got) != want:
                    run.violation("calendar-entry-dispatch-wrong", {"date": str(d), "entry": e})

    # (2) eval against the interpreter
    if run.want("eval"):
        n = (8000 if thorough else 600) // (run.shard[1] if thorough else 1) + 1
        for i in range(n):
            day = datetime.date(rng.choice([1999, 2000, 2023, 2024, 2026, 2100]), rng.randrange(1, 13), 1) + datetime.timedelta(days=rng.randrange(0, 28))
            if rng.random() < 0.15:
                day = rng.choice([datetime.date(2024, 2, 29), datetime.date(2023, 12, 31), datetime.date(2024, 1, 1), datetime.date(2100, 2, 28)])
            s = rand_sched(rng, day)
            CLK.reset()
            CLK.now = float(calendar.timegm(day.timetuple()))
            try:
                so, app = build(s)
            except Exception as err:
                run.count("cannot_build")
                run.seen("cannot_build_reasons", type(err).__name__ + ":" + str(err)[:60])
                continue
            for dd in (0, 1, -1) if i % 3 == 0 else (0,):
                d2 = day + datetime.timedelta(days=dd)
                run.case(("eval", run.shard[0], i, dd), sample={"schedule": s.describe(), "date": str(d2)}, sample_key=("eval", len(s.exceptions) > 0, s.weekly is None))
                check_eval(run, s, so, d2, rng, every_minute=(i % 4 == 0))

    # (3) timer driven
    if run.want("timer"):
        budget = LineBudget([S.LocalScheduleInterpreter.process_task])
        n = (4000 if thorough else 500) // (run.shard[1] if thorough else 1) + 1
        for i in range(n):
            day = datetime.date(rng.choice([1999, 2024, 2026]), rng.randrange(1, 13), 1) + datetime.timedelta(days=rng.randrange(0, 28))
            if rng.random() < 0.2:
                day = rng.choice([datetime.date(2024, 2, 28), datetime.date(2023, 12, 30), datetime.date(2024, 12, 31)])
            zone = None
            if i % 5 == 4:
                # local time with daylight saving: a summer or a winter stretch away from the switch dates
                zone = rng.choice(["EST5EDT,M3.2.0,M11.1.0", "CET-1CEST,M3.5.0,M10.5.0/3"])
                day = datetime.date(rng.choice([1999, 2024, 2026]), rng.choice([1, 6, 7, 7, 8, 12]), rng.randrange(3, 20))
            s = rand_sched(rng, day)
            ndays = rng.choice([3, 3, 4, 10]) if thorough else rng.choice([2, 3, 4])
            if zone:
                ndays = min(ndays, 4)
            run.case(("timer", run.shard[0], i), sample={"schedule": s.describe(), "start": str(day), "days": ndays}, sample_key=("timer", i < 2))
            budget.arm(4000000)
            try:
                timer_run(run, s, day, ndays, rng, with_app=None if i % 3 else True, zone=zone)
            finally:
                budget.disarm()
        budget.close()
    run.finish(require=("matcher_results_compared", "evaluations_compared", "transition_promises_checked", "timer_probes", "timer_runs")
               if run.only is None else ())


if __name__ == "__main__":
    main_guard(main)
