"""
C14  Scheduled work runs once, in order, never early; failures stay isolated.

The real TaskManager / core.run_once / core.run are driven under the virtual
clock (only bacpypes.task._time is replaced); a reference scheduler is stepped
in lock-step and the firing histories are compared.  A class invariant on
TaskManager (heap shape, one entry per scheduled task) is evaluated after
every public method.
"""

import sys
import time
import itertools
import threading
from fractions import Fraction

from .. import common
from ..common import Run, main_guard

common.bootstrap()

from ..vclock import clock, StepBudgetExceeded
from ..hooks import class_invariant

import bacpypes.core as core
import bacpypes.task as task
from bacpypes.task import OneShotTask, RecurringTask, TaskManager, FunctionTask, OneShotFunction, RecurringFunctionTask

RULE = ("(A) every operation sequence over {install at now+0/+1, install after 1, suspend, resume} x 3 tasks + advance "
        "0/1/2 up to length 4 (quick) / 5 (thorough; length 6 with 2 tasks), each followed by a flush; (B) random "
        "sequences of length 200 on 4 tasks whose callbacks install/suspend other tasks, defer functions and raise; "
        "(C) recurring tasks over an interval x offset x clock-origin grid incl. 100 ms, 1/3 s, 0.7 s at epoch-sized "
        "clocks; (D) every subset of raising members in deferred batches up to 5/6 incl. members that defer further "
        "work, under core.run_once and core.run; (E) due tasks mixed with raising tasks and deferred work; "
        "(F, thorough) producer threads calling deferred() while the loop drains.  distinct = distinct operation "
        "sequences / grid points / batches; non-trivial = at least one callback was observed and compared")

CLK = clock()
INV = {"n": 0}
RUN = None


# ----------------------------------------------------------------------
# class invariant on the real TaskManager
# ----------------------------------------------------------------------

def heap_invariant(tm):
    """holds at entry and exit of every public TaskManager method (evaluated by the attached class invariant)"""
    heap = tm.tasks
    n = len(heap)
    for i in range(1, n):
        if heap[(i - 1) >> 1][:2] > heap[i][:2]:
            RUN.violation("heap-order-broken", {"index": i, "parent": repr(heap[(i - 1) >> 1][:2]), "child": repr(heap[i][:2])})
            return
    seen = set()
    for when, cnt, t in heap:
        if id(t) in seen:
            RUN.violation("task-queued-twice", {"task": getattr(t, "name", repr(t))})
            return
        seen.add(id(t))
        if not t.isScheduled:
            RUN.violation("queued-task-not-marked-scheduled", {"task": getattr(t, "name", repr(t))})
            return


def quiescent_invariant(tm):
    """stricter agreement between tasks and queue; only true between operations, so the driver evaluates it
    after each operation (inside TaskManager.install_task the task already carries its new time)"""
    INV["quiescent"] = INV.get("quiescent", 0) + 1
    heap_invariant(tm)
    queued = {}
    for when, cnt, t in tm.tasks:
        queued[id(t)] = when
    for t in LIVE_TASKS:
        if t.isScheduled and id(t) not in queued:
            RUN.violation("task-marked-scheduled-but-not-queued", {"task": getattr(t, "name", repr(t))})
            return
        if id(t) in queued and queued[id(t)] != t.taskTime:
            RUN.violation("queue-entry-time-differs-from-task-time", {"task": getattr(t, "name", repr(t)), "entry": queued[id(t)], "taskTime": t.taskTime})
            return


LIVE_TASKS = []


# ----------------------------------------------------------------------
# recording tasks and the reference scheduler
# ----------------------------------------------------------------------

class Rec(OneShotTask):
    def __init__(self, name, log, program=None):
        OneShotTask.__init__(self)
        self.name = name
        self.log = log
        self.program = program or []       # list of callables run when fired

    def process_task(self):
        self.log.append((self.name, CLK.now))
        for step in self.program:
            step()


class RefSched:
    """sorted by (due time, installation sequence); fires at max(due, now)"""

    def __init__(self, now):
        self.now = now
        self.q = {}
        self.seq = 0
        self.last = {}
        self.log = []
        self.programs = {}
        self.deferred = []

    def install(self, name, when):
        self.seq += 1
        self.q[name] = (when, self.seq)
        self.last[name] = when

    def suspend(self, name):
        self.q.pop(name, None)

    def resume(self, name):
        if self.last.get(name) is None:
            return "error"
        self.install(name, self.last[name])

    def drain_deferred(self):
        while self.deferred:
            batch, self.deferred = self.deferred, []
            for f in batch:
                f()

    def advance(self, until):
        self.drain_deferred()
        while self.q:
            name = min(self.q, key=lambda k: self.q[k])
            when, _ = self.q[name]
            if when > until:
                break
            del self.q[name]
            if when > self.now:
                self.now = when
            self.log.append((name, self.now))
            for step in self.programs.get(name, []):
                step()
            self.drain_deferred()
        if until > self.now:
            self.now = until


def fresh():
    left = CLK.reset()
    del LIVE_TASKS[:]
    return left


# ----------------------------------------------------------------------
# (A) exhaustive operation sequences
# ----------------------------------------------------------------------

def alphabet(ntasks):
    ops = []
    for t in range(ntasks):
        ops += [("at", t, 0), ("at", t, 1), ("after", t, 1), ("suspend", t), ("resume", t)]
    ops += [("adv", 0), ("adv", 1), ("adv", 2)]
    return ops


def run_sequence(run, seq, ntasks, wit=None):
    fresh()
    log = []
    tasks = [Rec("T%d" % i, log) for i in range(ntasks)]
    LIVE_TASKS.extend(tasks)
    ref = RefSched(CLK.now)
    fired_real = 0
    try:
        for op in seq:
            k = op[0]
            if k == "at":
                when = CLK.now + op[2]
                tasks[op[1]].install_task(when=when)
                ref.install("T%d" % op[1], when)
            elif k == "after":
                tasks[op[1]].install_task(delta=op[2])
                ref.install("T%d" % op[1], ref.now + op[2])
            elif k == "suspend":
                tasks[op[1]].suspend_task()
                ref.suspend("T%d" % op[1])
            elif k == "resume":
                r = ref.resume("T%d" % op[1])
                try:
                    tasks[op[1]].resume_task()
                    if r == "error":
                        # resuming a task that never had a time: the library may refuse or ignore
                        pass
                except RuntimeError:
                    if r != "error":
                        raise
            elif k == "adv":
                CLK.drive(duration=op[1], max_steps=10000)
                ref.advance(ref.now + op[1])
            quiescent_invariant(CLK.tm)
        CLK.drive(duration=10, max_steps=10000)
        ref.advance(ref.now + 10)
    except StepBudgetExceeded as err:
        run.violation("scheduler-does-not-quiesce", dict(wit or {}, ops=[list(o) for o in seq], error=str(err)))
        return
    except Exception as err:
        run.violation("scheduler-operation-raised/" + type(err).__name__, dict(wit or {}, ops=[list(o) for o in seq], error=repr(err)[:120]))
        return
    run.count("callbacks_observed", len(log))
    run.count("histories_compared")
    if log != ref.log:
        run.violation(classify(log, ref.log), dict(wit or {}, ops=[list(o) for o in seq], fired=log[:12], expected=ref.log[:12]))
        return
    if CLK.tm.tasks:
        run.violation("tasks-left-after-flush", {"ops": [list(o) for o in seq], "left": len(CLK.tm.tasks)})
    if CLK.swallowed.records:
        run.violation("scheduler-logged-an-exception", {"ops": [list(o) for o in seq], "record": CLK.swallowed.records[0]})


def classify(got, want):
    gn = [n for n, t in got]
    wn = [n for n, t in want]
    if sorted(gn) != sorted(wn):
        for n in set(gn) | set(wn):
            if gn.count(n) > wn.count(n):
                return "task-fired-more-often-than-installed"
            if gn.count(n) < wn.count(n):
                return "installed-task-never-fired"
    if gn != wn:
        return "firing-order-differs"
    for (n, a), (_, b) in zip(got, want):
        if a < b:
            return "task-fired-early"
    return "firing-time-differs"


# ----------------------------------------------------------------------
# (B) random long sequences with callbacks
# ----------------------------------------------------------------------

class Boom(Exception):
    pass


def random_history(run, rng, length, ntasks=4):
    fresh()
    log = []
    names = ["T%d" % i for i in range(ntasks)]
    tasks = {n: Rec(n, log) for n in names}
    LIVE_TASKS.extend(tasks.values())
    ref = RefSched(CLK.now)
    ops = []
    dcount = [0]
    expected_swallowed = [0]

    def do(op, real=True, model=True):
        k = op[0]
        if k == "at":
            if real:
                tasks[op[1]].install_task(when=CLK.now + op[2])
            if model:
                ref.install(op[1], ref.now + op[2])
        elif k == "after":
            if real:
                tasks[op[1]].install_task(delta=op[2])
            if model:
                ref.install(op[1], ref.now + op[2])
        elif k == "suspend":
            if real:
                tasks[op[1]].suspend_task()
            if model:
                ref.suspend(op[1])
        elif k == "defer":
            tag = op[1]
            if real:
                core.deferred(lambda: log.append((tag, CLK.now)))
            if model:
                ref.deferred.append(lambda: ref.log.append((tag, ref.now)))

    for i in range(length):
        r = rng.random()
        n = rng.choice(names)
        if r < 0.30:
            op = ("at", n, rng.choice([0, 0, 0.5, 1, 1, 2, 3.25]))
        elif r < 0.45:
            op = ("after", n, rng.choice([0, 0.5, 1, 2]))
        elif r < 0.55:
            op = ("suspend", n)
        elif r < 0.62:
            op = ("resume", n)
        elif r < 0.72:
            # give the task a program: when it fires it operates on another task / defers / raises
            m = rng.choice(names)
            kind = rng.choice(["at", "suspend", "defer", "raise", "after"])
            # strictly positive delays inside programs: a zero-delay cycle of tasks is a legitimate endless loop
            if kind == "at":
                sub = ("at", m, rng.choice([0.5, 1, 2]))
            elif kind == "after":
                sub = ("after", m, rng.choice([0.25, 1]))
            elif kind == "suspend":
                sub = ("suspend", m)
            elif kind == "defer":
                dcount[0] += 1
                sub = ("defer", "D%d" % dcount[0])
            else:
                sub = ("raise",)
            op = ("program", n, sub)
        elif r < 0.78:
            dcount[0] += 1
            op = ("defer", "D%d" % dcount[0])
        else:
            op = ("adv", rng.choice([0, 0.5, 1, 1, 2, 5]))
        ops.append(op)
        try:
            if op[0] == "resume":
                rr = ref.resume(op[1])
                try:
                    tasks[op[1]].resume_task()
                except RuntimeError:
                    if rr != "error":
                        raise
            elif op[0] == "program":
                sub = op[2]
                if sub[0] == "raise":
                    def boom():
                        raise Boom("task failure")
                    tasks[op[1]].program = [boom]
                    ref.programs[op[1]] = []
                else:
                    tasks[op[1]].program = [lambda sub=sub: do(sub, real=True, model=False)]
                    ref.programs[op[1]] = [lambda sub=sub: do(sub, real=False, model=True)]
            elif op[0] == "adv":
                CLK.drive(duration=op[1], max_steps=20000)
                ref.advance(ref.now + op[1])
            else:
                do(op)
            quiescent_invariant(CLK.tm)
        except StepBudgetExceeded as err:
            run.violation("scheduler-does-not-quiesce", {"ops": ops[-12:], "error": str(err)})
            return
        except Exception as err:
            run.violation("scheduler-operation-raised/" + type(err).__name__, {"ops": ops[-12:], "error": repr(err)[:120]})
            return
    CLK.drive(duration=20, max_steps=20000)
    ref.advance(ref.now + 20)
    run.count("callbacks_observed", len(log))
    run.count("histories_compared")
    run.count("raising_tasks_observed", sum(1 for r in CLK.swallowed.records if r["exc"] == "Boom"))
    # tasks among themselves and deferred calls among themselves; how the two classes interleave at one instant
    # is not fixed by the statement (the loop runs one due task, then drains the deferred list)
    tl, tr = [e for e in log if e[0][0] == "T"], [e for e in ref.log if e[0][0] == "T"]
    dl, dr = [e[0] for e in log if e[0][0] == "D"], [e[0] for e in ref.log if e[0][0] == "D"]
    run.count("deferred_calls_observed", len(dl))
    if tl != tr:
        k = next((i for i in range(min(len(tl), len(tr))) if tl[i] != tr[i]), min(len(tl), len(tr)))
        run.violation(classify(tl, tr) + "/random-history", {"first_difference_at": k, "fired": tl[max(0, k - 3):k + 4],
                                                             "expected": tr[max(0, k - 3):k + 4], "ops_tail": ops[-15:]})
    elif dl != dr:
        k = next((i for i in range(min(len(dl), len(dr))) if dl[i] != dr[i]), min(len(dl), len(dr)))
        key = "deferred-function-lost" if len(dl) < len(dr) else "deferred-function-called-twice" if len(dl) > len(dr) else "deferred-order-differs"
        run.violation(key + "/random-history", {"first_difference_at": k, "called": dl[max(0, k - 3):k + 4], "expected": dr[max(0, k - 3):k + 4]})


# ----------------------------------------------------------------------
# (C) recurring tasks
# ----------------------------------------------------------------------

class RecTask(RecurringTask):
    def __init__(self, interval, offset, log):
        RecurringTask.__init__(self, interval, offset)
        self.log = log

    def process_task(self):
        self.log.append(CLK.now)


def recurring_case(run, origin, interval_ms, offset_ms, install_shift, nfire, via_function=False):
    fresh()
    CLK.now = origin
    log = []
    wit = {"origin": origin, "interval_ms": str(interval_ms), "offset_ms": str(offset_ms), "install_shift": install_shift}
    iv = float(interval_ms)
    off = float(offset_ms) if offset_ms else None
    if via_function:
        t = RecurringFunctionTask(iv, lambda: log.append(CLK.now))
        t.taskIntervalOffset = off
    else:
        t = RecTask(iv, off, log)
    LIVE_TASKS.append(t)
    CLK.now = origin + install_shift
    t0 = CLK.now
    t.install_task()
    I = Fraction(interval_ms) / 1000
    O = (Fraction(offset_ms) / 1000) if offset_ms else Fraction(0)
    try:
        CLK.drive(duration=float(I * nfire + I / 2), max_steps=100000)
    except StepBudgetExceeded as err:
        run.violation("recurring-task-spins", dict(wit, error=str(err), fired=len(log)))
        return
    t.suspend_task()
    run.count("callbacks_observed", len(log))
    run.count("recurring_cases")
    if not log:
        run.violation("recurring-task-never-fired", wit)
        return
    tol = 1e-5
    # slot index of each firing
    ks = []
    for f in log:
        k = round((Fraction(f) - O) / I)
        slot = float(O + k * I)
        if abs(f - slot) > tol:
            run.violation("recurring-task-fired-off-slot", dict(wit, fired_at=f, nearest_slot=slot))
            return
        ks.append(k)
    if log[0] <= t0:
        run.violation("recurring-task-fired-at-or-before-installation", dict(wit, first=log[0], installed=t0))
        return
    # first slot strictly after installation (installation instants are chosen >= 3 us away from a slot, or on one)
    k0 = (Fraction(t0) - O) // I + 1
    if abs(float(O + (k0 - 1) * I) - t0) <= tol:
        # installed on a slot (within float noise): the next one is first
        pass
    if ks[0] != k0:
        run.violation("recurring-task-first-firing-wrong-slot", dict(wit, first=log[0], expected=float(O + k0 * I)))
        return
    for a, b in zip(ks, ks[1:]):
        if b == a:
            run.violation("recurring-task-repeated-a-slot", dict(wit, slot=float(O + a * I)))
            return
        if b != a + 1:
            run.violation("recurring-task-skipped-a-slot", dict(wit, after=float(O + a * I), next=float(O + b * I)))
            return
    if len(ks) < nfire - 1:
        run.violation("recurring-task-stopped", dict(wit, fired=len(ks), expected=nfire))


class LifeTask(RecurringTask):
    """a recurring task with a script: what it does at its n-th firing"""

    def __init__(self, interval, offset, log, script):
        RecurringTask.__init__(self, interval, offset)
        self.log = log
        self.script = script
        self.n = 0

    def process_task(self):
        self.log.append(CLK.now)
        self.n += 1
        act = self.script.get(self.n)
        if act == "raise":
            raise Boom("recurring firing %d" % self.n)
        if act == "suspend-self":
            self.suspend_task()
        if isinstance(act, tuple) and act[0] == "reinstall-self":
            self.install_task(act[1], act[2])


def recurring_life(run, rng, origin):
    """one recurring task object through a life: re-installed with other intervals and offsets (an explicit offset of 0 too),
    suspended from outside and resumed, suspending or re-installing itself while it fires, raising at some firings.
    Reference: after every (re-)installation or resumption the firings are the slots offset + k * interval strictly after
    that instant; none while suspended"""
    fresh()
    CLK.now = origin + rng.choice([0.0, 0.25, 0.12371])
    log = []
    ivs = [100, 250, 1000, 700]
    offs = [None, 0, 0.0, 50, 250, 30]
    iv, off = rng.choice(ivs), rng.choice(offs)
    script = {}
    for n in rng.sample(range(2, 40), 6):
        script[n] = rng.choice(["raise", "raise", "suspend-self", ("reinstall-self", rng.choice(ivs), rng.choice(offs))])
    t = LifeTask(iv, off, log, script)
    LIVE_TASKS.append(t)
    hist = [("install", iv, off, round(CLK.now - origin, 3))]
    t.install_task()
    expected = []
    state = {"iv": iv, "off": off or 0, "from": CLK.now, "active": True}
    wit = {"origin": origin, "history": hist, "script": {str(k): v for k, v in script.items()}}

    def slots_until(t_end):
        """slots of the current installation in (from, t_end]"""
        out = []
        if not state["active"]:
            return out
        I = Fraction(state["iv"]) / 1000
        O = Fraction(state["off"]) / 1000
        k = (Fraction(state["from"]) + Fraction(1, 1000000) - O) // I + 1
        while float(O + k * I) <= t_end + 1e-9:
            out.append(float(O + k * I))
            k += 1
        return out

    fired_n = [0]

    def advance(d):
        """advance in pieces so that what the script does at a firing takes effect in the reference at that instant"""
        t_end = CLK.now + d
        while True:
            nxt = slots_until(t_end)
            if not nxt:
                break
            s = nxt[0]
            expected.append(s)
            fired_n[0] += 1
            act = script.get(fired_n[0])
            state["from"] = s
            if act == "suspend-self":
                state["active"] = False
                hist.append(("suspend-self", round(s - origin, 3)))
            elif isinstance(act, tuple):
                state["iv"] = act[1]
                if act[2] is not None:
                    state["off"] = act[2]
                hist.append(("reinstall-self", act[1], act[2], round(s - origin, 3)))
            elif act == "raise":
                hist.append(("raise", round(s - origin, 3)))
        CLK.drive(until=t_end, max_steps=200000)

    try:
        for step in range(rng.randrange(4, 10)):
            # (durations that keep the instants of the operations away from the slots, which are multiples of 10 ms)
            advance(rng.choice([0.30351, 1.00737, 2.51113, 0.05319]))
            r = rng.random()
            if r < 0.35:
                iv2, off2 = rng.choice(ivs + [None]), rng.choice(offs)
                hist.append(("reinstall", iv2, off2, round(CLK.now - origin, 3)))
                t.install_task(iv2, off2)
                if iv2 is not None:
                    state["iv"] = iv2
                if off2 is not None:
                    state["off"] = off2
                state["from"] = CLK.now
                state["active"] = True
            elif r < 0.6:
                hist.append(("suspend", round(CLK.now - origin, 3)))
                t.suspend_task()
                state["active"] = False
            elif r < 0.85 and not state["active"]:
                hist.append(("resume", round(CLK.now - origin, 3)))
                t.resume_task()
                state["from"] = CLK.now
                state["active"] = True
        advance(1.50193)
    except StepBudgetExceeded as err:
        run.violation("recurring-task-spins", dict(wit, error=str(err), fired=len(log)))
        return
    t.suspend_task()
    run.count("recurring_lives")
    run.count("callbacks_observed", len(log))
    got = [round(x - origin, 4) for x in log]
    want = [round(x - origin, 4) for x in expected]
    if got != want:
        k = next((i for i in range(min(len(got), len(want))) if abs(got[i] - want[i]) > 2e-4), min(len(got), len(want)))
        if k == min(len(got), len(want)) and len(got) == len(want):
            return
        last = [h for h in hist if h[-1] <= (want[k] if k < len(want) else got[k]) + 1e-6][-1:]
        what = (last[0][0] if last else "install")
        key = "recurring-task-%s/after-%s" % ("fired-where-none-was-due" if (k >= len(want) or (k < len(got) and got[k] < want[k])) else "missed-a-due-firing", what)
        run.violation(key, dict(wit, first_difference_at=k, fired=got[max(0, k - 2):k + 3], expected=want[max(0, k - 2):k + 3]))


# ----------------------------------------------------------------------
# (D,E) deferred batches, isolation
# ----------------------------------------------------------------------

NEGATIVE_WAITS = []


def fake_asyncore_loop(limit):
    """stands in for the I/O wait of core.run(): returns at once when the
    wake-up trigger is set, otherwise lets `timeout` virtual seconds pass"""
    def loop(timeout=30.0, use_poll=False, map=None, count=None):
        if timeout is not None and timeout < 0:
            NEGATIVE_WAITS.append(timeout)      # select() refuses a negative timeout: the real loop would raise here
            timeout = 0.0
        trig = CLK.tm.trigger
        if trig.isSet():
            trig.clear()
        else:
            CLK.now += timeout
        if CLK.now >= limit[0]:
            core.stop()
    return loop


def drive_with_core_run(duration):
    limit = [CLK.now + duration]
    orig = core.asyncore.loop
    core.asyncore.loop = fake_asyncore_loop(limit)
    try:
        core.run(spin=1.0, sigterm=None, sigusr1=None)
    finally:
        core.asyncore.loop = orig


KINDS = [0]


def slow_task_case(run, rng, loop_kind):
    """tasks whose processing takes time (the clock moves while they run): several others are overdue together afterwards.
    Each still fires once, in order of due time, in the same pass, and the loop is never asked to wait a negative time"""
    fresh()
    del NEGATIVE_WAITS[:]
    log = []
    base = CLK.now
    plan = []
    t = 0.0
    for i in range(rng.randrange(3, 8)):
        t += rng.choice([0.2, 0.5, 1.0])
        plan.append((t, rng.choice([0.0, 0.0, 0.7, 2.0, 3.5])))
    wit = {"loop": loop_kind, "tasks_(due, takes)": plan}
    tasks = []
    for i, (due, work) in enumerate(plan):
        def busy(work=work):
            CLK.now += work
        tk = Rec("S%d" % i, log, [busy] if work else [])
        tasks.append(tk)
        LIVE_TASKS.append(tk)
        tk.install_task(when=base + due)
    total = plan[-1][0] + sum(w for d, w in plan) + 2.0
    try:
        if loop_kind == "run_once":
            CLK.drive(duration=total, max_steps=10000)
        else:
            drive_with_core_run(total)
    except StepBudgetExceeded as err:
        run.violation("slow-tasks-do-not-drain", dict(wit, error=str(err)))
        return
    run.count("slow_task_cases")
    run.count("callbacks_observed", len(log))
    names = [n for n, tt in log]
    if names != ["S%d" % i for i in range(len(plan))]:
        run.violation("overdue-tasks-not-fired-once-in-order/" + loop_kind, dict(wit, fired=log))
        return
    for (n, tt), (due, work) in zip(log, plan):
        if tt < base + due - 1e-9:
            run.violation("task-fired-early/" + loop_kind, dict(wit, task=n, at=tt - base, due=due))
            return
    if NEGATIVE_WAITS:
        run.violation("event-loop-asked-to-wait-a-negative-time", dict(wit, timeouts=NEGATIVE_WAITS[:3]))
    sw = [r for r in CLK.swallowed.records if r["exc"]] if hasattr(CLK, "swallowed") else []
    if sw:
        run.violation("exception-in-the-loop-with-overdue-tasks/%s" % sw[0]["exc"], dict(wit, swallowed=sw[:2]))


PRE_MANAGER_SCRIPT = r"""
import sys, json
import bacpypes.task as T
clock = [1000.0]
T._time = lambda: clock[0]
order = json.loads(sys.argv[1])
log = []
class Rec(T.OneShotTask):
    def __init__(self, name):
        T.OneShotTask.__init__(self)
        self.name = name
    def process_task(self):
        log.append((self.name, clock[0]))
class RecR(T.RecurringTask):
    def __init__(self, name, interval):
        T.RecurringTask.__init__(self, interval)
        self.name = name
    def process_task(self):
        log.append((self.name, clock[0]))
keep = []
assert T._task_manager is None
for name, kind, arg in order:
    if kind == "fn":
        keep.append(T.OneShotFunction(lambda name=name: log.append((name, clock[0]))))
        continue
    t = Rec(name) if kind == "at" else RecR(name, arg)
    keep.append(t)
    if kind == "at":
        t.install_task(when=1000.0 + arg)
    else:
        t.install_task()
from bacpypes import core
tm = T.TaskManager()
tm.trigger = None
for step in range(400):
    task, delta = tm.get_next_task()
    if task:
        tm.process_task(task)
    elif delta is None or clock[0] + delta > 1004.0:
        break
    else:
        clock[0] += delta
print(json.dumps(log))
"""


def pre_manager_case(run, rng):
    """tasks installed before the task manager exists (at import time, before core.run): a fresh interpreter each time, since
    the manager is a singleton of the process.  They fire in due-time order and, for equal times, in installation order"""
    import json
    import os
    import subprocess
    import sys
    n = rng.randrange(2, 7)
    order = []
    for i in range(n):
        r = rng.random()
        if r < 0.3:
            order.append(("r%d" % i, "every", rng.choice([500, 1000])))
        elif r < 0.45:
            order.append(("tf%d" % i, "fn", 0))         # OneShotFunction: "as soon as possible"
        else:
            order.append(("t%d" % i, "at", rng.choice([0.0, 1.0, 1.0, 2.0, 0.5])))
    try:
        p = subprocess.run([sys.executable, "-c", PRE_MANAGER_SCRIPT, json.dumps(order)], stdout=subprocess.PIPE, stderr=subprocess.PIPE,
                           timeout=60, env=dict(os.environ))
    except subprocess.TimeoutExpired:
        run.count("pre_manager_subprocess_timeouts")
        return
    if p.returncode != 0:
        run.violation("tasks-installed-before-the-manager-exists-break-it/" + (p.stderr.decode("utf-8", "replace").strip().splitlines() or ["?"])[-1][:60],
                      {"installed_(name, kind, arg)": order})
        return
    fired = [tuple(x) for x in json.loads(p.stdout.decode())]
    run.count("pre_manager_cases")
    run.count("callbacks_observed", len(fired))
    # reference: stable sort by due time of what was installed, in installation order
    exp = []
    seq = 0
    for name, kind, arg in order:
        if kind == "at":
            exp.append((1000.0 + arg, seq, name))
            seq += 1
        elif kind == "fn":
            exp.append((0.0, seq, name))                # due before anything with a time, called when the manager starts
            seq += 1
        else:
            t = 1000.0
            while True:
                t += arg / 1000.0
                if t > 1004.0 + 1e-9:
                    break
                exp.append((round(t, 6), seq, name))
            seq += 1
    exp.sort()
    want = [(n_, max(t_, 1000.0)) for t_, s_, n_ in exp]
    got = [(n_, round(t_, 6)) for n_, t_ in fired]
    # recurring tasks re-installed while running get new sequence numbers: compare per instant, one-shots among themselves first
    ones_got = [x for x in got if x[0].startswith("t")]
    ones_want = [x for x in want if x[0].startswith("t")]
    if ones_got != ones_want:
        run.violation("tasks-installed-before-the-manager-exists-fire-out-of-order", {"installed_(name, kind, arg)": order, "fired": got[:12], "expected_one_shots": ones_want})
        return
    first_got = [x[0] for x in got if x[0].startswith("r")][:sum(1 for o in order if o[1] == "every" and o[2] == 500)]
    if sorted(got) != sorted(want):
        run.violation("tasks-installed-before-the-manager-exists-lost-or-repeated", {"installed_(name, kind, arg)": order, "fired": got[:16], "expected": want[:16]})


def deferred_batch(run, n, raising, nesting, raise_after_defer, loop_kind, with_tasks=False):
    """n members; members in `raising` raise; members in `nesting` defer a child; raise_after_defer: nesting
    raisers raise after they deferred"""
    fresh()
    calls = []
    submitted = []
    wit = {"members": n, "raising": sorted(raising), "deferring": sorted(nesting), "loop": loop_kind, "with_tasks": with_tasks}

    def member(i):
        def fn():
            calls.append("m%d" % i)
            if i in nesting:
                submitted.append("c%d" % i)
                core.deferred(child, i)
            if i in raising:
                raise Boom("member %d" % i)
        return fn

    def child(i):
        calls.append("c%d" % i)

    tasklog = []
    if with_tasks:
        # tasks due at the same instant, one of them raising
        def boom():
            raise Boom("task")
        ts = [Rec("A", tasklog), Rec("B", tasklog, [boom]), Rec("C", tasklog)]
        LIVE_TASKS.extend(ts)
        for t in ts:
            t.install_task(when=CLK.now)
    # the callables handed to deferred() are of every kind Python has: plain function, lambda, bound method,
    # functools.partial, object with __call__ (the last two have no __name__ / __qualname__)
    import functools

    class Obj(object):
        def __init__(self, f):
            self.f = f

        def __call__(self):
            return self.f()

        def method(self):
            return self.f()

    KINDS[0] += 1
    for i in range(n):
        submitted.append("m%d" % i)
        f = member(i)
        kind = (i + KINDS[0]) % 5
        wit.setdefault("kinds", []).append(["function", "lambda", "method", "partial", "object"][kind])
        if kind == 0:
            core.deferred(f)
        elif kind == 1:
            core.deferred(lambda f=f: f())
        elif kind == 2:
            core.deferred(Obj(f).method)
        elif kind == 3:
            core.deferred(functools.partial(f))
        else:
            core.deferred(Obj(f))
        run.seen("deferred_callable_kinds", wit["kinds"][-1] + ("/raising" if i in raising else ""))
    try:
        if loop_kind == "run_once":
            CLK.drive(duration=1, max_steps=10000)
        else:
            drive_with_core_run(1.0)
    except StepBudgetExceeded as err:
        run.violation("deferred-queue-does-not-drain", dict(wit, error=str(err)))
        return
    run.count("deferred_calls_observed", len(calls))
    run.count("deferred_batches")
    # expected order: members in order, then children in order of their parents (one level of nesting)
    expected = ["m%d" % i for i in range(n)] + ["c%d" % i for i in range(n) if i in nesting]
    if calls != expected:
        missing = [x for x in expected if x not in calls]
        dup = [x for x in set(calls) if calls.count(x) > 1]
        if dup:
            key = "deferred-function-called-twice"
        elif missing:
            key = "deferred-function-lost-after-exception" if raising else "deferred-function-lost"
        else:
            key = "deferred-order-differs"
        run.violation(key + "/" + loop_kind, dict(wit, called=calls, expected=expected))
        return
    if with_tasks:
        run.count("callbacks_observed", len(tasklog))
        if [n for n, t in tasklog] != ["A", "B", "C"]:
            run.violation("due-task-lost-after-exception/" + loop_kind, dict(wit, fired=tasklog))


# ----------------------------------------------------------------------
# (F) threads
# ----------------------------------------------------------------------

def thread_stress(run, nthreads, per_thread, rounds):
    """producers call core.deferred() from other threads while this thread drains with run_once()"""
    old = sys.getswitchinterval()
    sys.setswitchinterval(1e-6)
    lost_total = 0
    try:
        for rnd in range(rounds):
            fresh()
            got = []
            start = threading.Event()

            def producer(tid):
                start.wait()
                for k in range(per_thread):
                    core.deferred(got.append, (tid, k))
            threads = [threading.Thread(target=producer, args=(i,)) for i in range(nthreads)]
            for t in threads:
                t.start()
            start.set()
            deadline = time.time() + 30
            while any(t.is_alive() for t in threads) and time.time() < deadline:
                core.run_once()
            for t in threads:
                t.join(1)
            for _ in range(5):
                core.run_once()
            if time.time() >= deadline:
                run.inconclusive_because("thread stress round hit the wall-clock watchdog")
                return
            run.case(("threads", nthreads, per_thread, rnd), sample={"producer_threads": nthreads, "calls_per_thread": per_thread},
                     sample_key=("threads",))
            run.count("threaded_deferred_calls_observed", len(got))
            run.count("thread_rounds")
            # interleaving signature: how often the producing thread changed between consecutive calls
            switches = sum(1 for a, b in zip(got, got[1:]) if a[0] != b[0])
            run.seen("interleavings", switches)
            per = {}
            bad = None
            for tid, k in got:
                exp = per.get(tid, 0)
                if k != exp:
                    bad = ("deferred-call-duplicated-or-reordered-under-threads" if k < exp else "deferred-call-lost-under-threads",
                           {"thread": tid, "expected_index": exp, "got_index": k, "round": rnd})
                    break
                per[tid] = exp + 1
            if bad is None:
                for tid in range(nthreads):
                    if per.get(tid, 0) != per_thread:
                        bad = ("deferred-call-lost-under-threads", {"thread": tid, "delivered": per.get(tid, 0), "submitted": per_thread, "round": rnd})
                        break
            if bad:
                run.violation(bad[0], bad[1])
                return
    finally:
        sys.setswitchinterval(old)


# ----------------------------------------------------------------------

def main():
    global RUN
    run = RUN = Run("C14", "exploration", RULE, assumptions=[
        "virtual time: bacpypes.task._time is the only replaced function; heap, due test, draining and exception handling are the library's",
        "an overdue task fires at the current instant; the order among due tasks is (due time, installation order)",
        "a recurring task installed within 2 us before a slot is not generated (the library deliberately adds 1 us)",
        "a recurring task keeps its slots through a firing that raises ('fires once at each successive multiple')"])
    if run.tier == "replay":
        return replay(run)
    thorough = run.tier == "thorough"
    if thorough and run.args.shard is None:
        run.run_shards("rv.props.c14", timeout=3000)
        # the threaded part runs once, in the parent
        engine = class_invariant(TaskManager, heap_invariant, INV)
        thread_stress(run, nthreads=6, per_thread=3000, rounds=6)
        run.extra["invariant_engine"] = engine
        return run.finish(require=("callbacks_observed", "histories_compared", "recurring_cases", "deferred_batches",
                                   "invariant_evaluations", "thread_rounds"))
    engine = class_invariant(TaskManager, heap_invariant, INV)
    run.extra["invariant_engine"] = engine
    rng = run.rng("c14")

    # (A)
    if run.want("A"):
        idx = 0
        plans = [(3, 5), (2, 6)] if thorough else [(3, 4), (2, 5)]
        for ntasks, maxlen in plans:
            ops = alphabet(ntasks)
            for ln in range(1, maxlen + 1):
                for seq in itertools.product(ops, repeat=ln):
                    idx += 1
                    if not run.mine(idx):
                        continue
                    # sequences without any install never produce a callback: counted, trivial
                    nontrivial = any(o[0] in ("at", "after") for o in seq)
                    if not nontrivial:
                        run.evaluations += 1
                        continue
                    run.bulk(1)
                    run_sequence(run, seq, ntasks)
            run.sample({"tasks": ntasks, "alphabet": [list(o) for o in ops], "all_sequences_up_to_length": maxlen})
    # (B)
    if run.want("B"):
        for i in range((400 if thorough else 60) // (run.shard[1] if thorough else 1) + 1):
            run.case(("random", run.shard[0], i))
            random_history(run, rng, 200)
            # more tasks pending together (a heap of three levels and more): removals from the middle matter
            random_history(run, rng, 200, ntasks=rng.choice([6, 9, 12, 16]))
    # (C)
    if run.want("C"):
        intervals = [100, Fraction(1000, 3), 700, 1, 10, 250, 1000, 60000, Fraction(1, 3), 33]
        offsets = [None, 50, Fraction(100, 3), 999]
        origins = [0.0, 1000000.0, 1790000000.0, 1790000000.123456, 4102444800.0]
        shifts = [0.0, 0.000003, 0.05, 0.1 - 0.000003, 1.0 / 3, 12.345678]
        idx = 0
        for iv, off, org, sh in itertools.product(intervals, offsets, origins, shifts):
            if off is not None and Fraction(off) >= Fraction(iv):
                continue
            idx += 1
            if not run.mine(idx):
                continue
            # keep away from the 1 us guard band in front of a slot (see assumptions)
            I = Fraction(iv) / 1000
            O = (Fraction(off) / 1000) if off else Fraction(0)
            t0 = Fraction(org + sh)
            dist = I - ((t0 - O) % I)
            if dist < Fraction(3, 1000000) or (I - dist) < Fraction(0) or (0 < (I - dist) < Fraction(1, 10 ** 9)):
                continue
            nfire = 300 if thorough else 60
            if Fraction(iv) >= 60000:
                nfire = 20
            run.case(("rec", str(iv), str(off), org, sh), sample={"interval_ms": str(iv), "offset_ms": str(off), "origin": org, "shift": sh},
                     sample_key=("rec", str(iv)))
            recurring_case(run, org, iv, off, sh, nfire, via_function=(idx % 5 == 0))
    for i in range((160 if thorough else 12) // (run.shard[1] if thorough else 1) + 1):
        run.case(("pre-manager", run.shard[0], i), sample=None)
        pre_manager_case(run, rng)
    for i in range((3000 if thorough else 120) // (run.shard[1] if thorough else 1)):
        for loop_kind in ("run_once", "run"):
            run.case(("slow-tasks", run.shard[0], i, loop_kind), sample=None)
            slow_task_case(run, rng, loop_kind)
    for i in range((6000 if thorough else 300) // (run.shard[1] if thorough else 1)):
        run.case(("recurring-life", run.shard[0], i), sample=None)
        recurring_life(run, rng, rng.choice([0.0, 1000.0, 1000000.0, 1.7e9]))
    # (D, E)
    if run.want("D"):
        maxn = 6 if thorough else 5
        idx = 0
        for n in range(1, maxn + 1):
            members = list(range(n))
            for r in range(0, n + 1):
                for raising in itertools.combinations(members, r):
                    for nest_mask in (range(1 << n) if n <= 4 else [0, (1 << n) - 1, 0b10101 & ((1 << n) - 1), 1, 1 << (n - 1)]):
                        nesting = {i for i in members if nest_mask >> i & 1}
                        for loop_kind in ("run_once", "run"):
                            idx += 1
                            if not run.mine(idx):
                                continue
                            with_tasks = (idx % 3 == 0)
                            run.case(("batch", n, raising, tuple(sorted(nesting)), loop_kind, with_tasks),
                                     sample={"members": n, "raising": raising, "deferring": sorted(nesting), "loop": loop_kind},
                                     sample_key=("batch", n, bool(raising), loop_kind))
                            deferred_batch(run, n, set(raising), nesting, True, loop_kind, with_tasks)
    run.count("invariant_evaluations", INV["n"])
    run.count("quiescent_invariant_evaluations", INV.get("quiescent", 0))
    if INV.get("monitor_errors"):
        run.inconclusive_because("invariant monitor raised: %s" % INV.get("last_monitor_error"))
    if not thorough:
        # a short threaded run also in the quick tier (natural switch points only)
        if run.want("F"):
            thread_stress(run, nthreads=4, per_thread=1500, rounds=2)
    run.finish(require=("callbacks_observed", "histories_compared", "recurring_cases", "deferred_batches", "invariant_evaluations")
               if run.only is None else ())


def replay(run):
    global RUN
    import json
    RUN = run
    class_invariant(TaskManager, heap_invariant, INV)
    with open(run.replay_path) as f:
        w = json.load(f)["witness"]
    if "ops" in w:
        seq = [tuple(o) for o in w["ops"]]
        nt = 1 + max([o[1] for o in seq if o[0] != "adv"] or [0])
        run_sequence(run, seq, max(nt, 2))
    elif "members" in w:
        deferred_batch(run, w["members"], set(w["raising"]), set(w["deferring"]), True, w["loop"], w.get("with_tasks", False))
    elif "interval_ms" in w:
        recurring_case(run, w["origin"], Fraction(w["interval_ms"]), Fraction(w["offset_ms"]) if w["offset_ms"] != "None" else None,
                       w["install_shift"], 60)
    else:
        run.inconclusive_because("random history: re-run the tier with the same VERIF_SEED")
    run.finish()


if __name__ == "__main__":
    main_guard(main)
