"""
C06  Routers deliver each packet once to exactly the addressed stations.

Random loop-free internetworks of real NetworkServiceAccessPoint /
NetworkServiceElement instances (stations and multi-port routers) on virtual
LANs.  A graph model computes the expected recipients per destination kind;
tokens give exactly-once; replies are actually sent back; every frame is
decoded with the independent NPCI decoder for hop count / no-echo rules.
"""

import itertools

from .. import common
from ..common import Run, main_guard

common.bootstrap()

from ..vclock import CLOCK, StepBudgetExceeded
from ..fnet import FaultNet, Plan, DELAY
from .. import wire as W

from bacpypes.comm import Client, bind
from bacpypes.pdu import Address, LocalBroadcast, LocalStation, RemoteStation, RemoteBroadcast, GlobalBroadcast
from bacpypes.vlan import Node
from bacpypes.netservice import NetworkServiceAccessPoint, NetworkServiceElement
from bacpypes.apdu import UnconfirmedRequestPDU

RULE = ("random tree internetworks of 2..8 networks, 1..3 stations each, routers with 2..4 ports (multi-hop), random network "
        "numbers, stations that know / do not know their network number, router start-up announcements on and off; for "
        "each topology every source station x destination kind {local station, local broadcast, remote station, remote "
        "broadcast, global broadcast} x destination, first with cold caches (path discovery and parking) then warm, each "
        "followed by a reply from every recipient to the source address it was shown; rings of 3..5 two-port routers for "
        "termination only; slow path-discovery answers (I-Am-Router-To-Network delayed 0.4..5 s on the asking station's "
        "network while traffic from the peer's network passes by and the station sends again).  A case is one (topology, source, destination); non-trivial = the packet crossed at least one "
        "router or was a broadcast")


class NetUser(Client):
    """the layer above a station's network layer: records what is handed upward"""

    def __init__(self, name, log):
        Client.__init__(self)
        self.name = name
        self.log = log

    def confirmation(self, apdu):
        data = bytes(apdu.pduData)
        # the network layer has stripped the fixed APDU header: what is left is the token
        self.log.append({"at": self.name, "token": data.decode("ascii", "replace"), "src": apdu.pduSource, "dst": apdu.pduDestination,
                         "t": CLOCK.now})

    def send(self, dest, token):
        pdu = UnconfirmedRequestPDU(8)
        pdu.pduData = bytearray(token.encode("ascii"))
        pdu.pduDestination = dest
        self.request(pdu)


class QuietNSE(NetworkServiceElement):
    _startup_disabled = True


class Topology:
    def __init__(self, rng, nnets, cyclic=0, announce=True, known=None, router_apps=0.0):
        self.rng = rng
        self.router_apps = router_apps
        self.log = []
        numbers = rng.sample(range(1, 200), nnets) if rng.random() < 0.7 else rng.sample([1, 2, 255, 256, 1000, 65534, 4660, 77, 9, 30000], nnets)
        self.nets = {n: FaultNet("net%d" % n, Plan()) for n in numbers}
        for lan in self.nets.values():
            lan.frame_cap = 20000
        self.stations = {}          # name -> dict(net, mac, user, nsap, knows)
        self.routers = []           # list of dict(ports={net: mac}, nsap)
        order = list(numbers)
        if cyclic:
            # ring of two-port routers: net_i -- R_i -- net_(i+1)
            for i in range(nnets):
                self.add_router([order[i], order[(i + 1) % nnets]], announce)
        else:
            connected = [order[0]]
            rest = order[1:]
            while rest:
                k = min(len(rest) + 1, rng.choice([2, 2, 3, 4]))
                ports = [rng.choice(connected)] + rest[:k - 1]
                rest = rest[k - 1:]
                connected += ports[1:]
                self.add_router(ports, announce)
        for n in numbers:
            for j in range(rng.randrange(1, 4)):
                knows = rng.random() < 0.5 if known is None else known
                self.add_station(n, 1 + j, knows)
        # station addresses are unique per network only: a station on one of a router's networks that happens to have the
        # address the router itself has on another of its networks
        for r in self.routers:
            nets = list(r["ports"])
            if len(nets) < 2 or rng.random() < 0.5:
                continue
            for own in (nets[0], nets[-1]):
                n = rng.choice([x for x in nets if x != own])
                mac = r["ports"][own]
                if any(q["ports"].get(n) == mac for q in self.routers) or ("S%d.%d" % (n, mac)) in self.stations:
                    continue
                self.add_station(n, mac, rng.random() < 0.5 if known is None else known)
                self.coincidences = getattr(self, "coincidences", 0) + 1

    def add_router(self, ports, announce):
        idx = len(self.routers)
        nsap = NetworkServiceAccessPoint()
        nse = (NetworkServiceElement if announce else QuietNSE)()
        bind(nse, nsap)
        r = {"ports": {}, "nsap": nsap, "nse": nse, "name": "R%d" % idx}
        hosts_app = bool(self.router_apps and self.rng.random() < self.router_apps)
        for k, n in enumerate(ports):
            mac = 100 + idx + 20 * k            # station addresses are per network: a router's differ from port to port
            node = Node(Address(mac), self.nets[n])
            if hosts_app and k > 0:
                nsap.bind(node, n)              # the way the library's documentation binds the further ports of a router:
            else:                               # only the port the application lives on is given an address
                nsap.bind(node, n, Address(mac))
            r["ports"][n] = mac
        self.routers.append(r)
        if hosts_app:
            # a router that also hosts an application: a station on the network of its first port (its local adapter)
            name = "A%d.%d" % (ports[0], 100 + idx)
            user = NetUser(name, self.log)
            bind(user, nsap)
            self.stations[name] = {"net": ports[0], "mac": 100 + idx, "user": user, "nsap": nsap, "knows": True, "name": name, "router": r}

    def add_station(self, net, mac, knows):
        name = "S%d.%d" % (net, mac)
        nsap = NetworkServiceAccessPoint()
        nse = QuietNSE()
        bind(nse, nsap)
        user = NetUser(name, self.log)
        bind(user, nsap)
        node = Node(Address(mac), self.nets[net])
        if knows:
            nsap.bind(node, net, Address(mac))
        else:
            nsap.bind(node)
        self.stations[name] = {"net": net, "mac": mac, "user": user, "nsap": nsap, "knows": knows, "name": name}

    def frames(self):
        out = []
        for n, lan in self.nets.items():
            for rec in lan.frames:
                out.append((n, rec))
        return out

    def describe(self):
        return {"networks": sorted(self.nets), "routers": [sorted(r["ports"]) for r in self.routers],
                "stations": {k: ("knows" if v["knows"] else "unknown-net") for k, v in self.stations.items()}}


KNOWN_ROUTER_APP = "router-hosted-application-cannot-exchange-traffic-with-the-networks-on-its-other-ports"


def other_port(topo, name, net):
    """is `name` an application hosted by a router, and `net` a network on one of that router's other ports?"""
    r = topo.stations[name].get("router")
    return bool(r) and net != topo.stations[name]["net"] and net in r["ports"]


def shown_through_other_port(topo, src, shown, receiver_net):
    """an application hosted by a router sent through one of the router's other ports: the source shown is the router's
    address on that port's network, not the application's own"""
    net = shown.addrNet if shown.addrType == Address.remoteStationAddr else receiver_net
    return other_port(topo, src, net) and shown.addrAddr == bytes([topo.stations[src]["router"]["ports"][net]])


def expected_recipients(topo, src, kind, target):
    st = topo.stations
    s = st[src]
    if kind == "local-station":
        return {target}
    if kind == "local-broadcast":
        return {k for k, v in st.items() if v["net"] == s["net"] and k != src}
    if kind == "remote-station":
        return {target}
    if kind == "remote-broadcast":
        return {k for k, v in st.items() if v["net"] == target and k != src}
    if kind == "global-broadcast":
        return {k for k in st if k != src}
    raise ValueError(kind)


def dest_address(topo, src, kind, target):
    st = topo.stations
    if kind == "local-station":
        return LocalStation(st[target]["mac"])
    if kind == "local-broadcast":
        return LocalBroadcast()
    if kind == "remote-station":
        return RemoteStation(st[target]["net"], st[target]["mac"])
    if kind == "remote-broadcast":
        return RemoteBroadcast(target)
    return GlobalBroadcast()


def wire_rules(run, topo, token, wit, n_before):
    """hop count decrement, no echo onto the arrival network, nothing forwarded at hop count 0 (tree topologies)"""
    tok = token.encode("ascii")
    per_router = {}
    total = 0
    for n, lan in topo.nets.items():
        for rec in lan.frames[n_before[n]:]:
            if tok not in rec["octets"]:
                continue
            total += 1
            try:
                np = W.npci_parse(rec["octets"])
            except W.Malformed:
                run.violation("router-emitted-malformed-npdu", dict(wit, octets=rec["octets"][:40]))
                continue
            for r in topo.routers:
                if n not in r["ports"]:
                    continue
                mac = str(r["ports"][n])
                pr = per_router.setdefault(r["name"], {"in": [], "out": []})
                if str(rec["src"]) == mac:
                    pr["out"].append((n, np))
                elif str(rec["dst"]) == mac or rec["dst"] == lan.broadcast_address:
                    pr["in"].append((n, np))
    for name, pr in per_router.items():
        in_nets = {n for n, np in pr["in"]}
        for n, np in pr["out"]:
            run.count("forwarded_copies_checked")
            if n in in_nets:
                run.violation("forwarded-back-onto-arrival-network", dict(wit, router=name, net=n))
                return total
            if np["hop"] is not None:
                hops_in = [q["hop"] for m, q in pr["in"] if q["hop"] is not None]
                if hops_in:
                    if 0 in hops_in and len(set(hops_in)) == 1:
                        run.violation("forwarded-with-exhausted-hop-count", dict(wit, router=name))
                        return total
                    if np["hop"] not in [h - 1 for h in hops_in]:
                        run.violation("hop-count-not-decremented-by-one", dict(wit, router=name, incoming=hops_in, outgoing=np["hop"]))
                        return total
                else:
                    # first router on the path: the source sent without SADR, hop count 255 expected to drop to 254
                    pass
    return total


def run_bursts(run, rng, nnets, announce):
    """several packets for one remote network handed to a station's network layer back to back (before the path discovery
    of the first can have come back): each is delivered once to exactly its recipients"""
    CLOCK.reset()
    topo = Topology(rng, nnets, announce=announce, router_apps=rng.choice([0.0, 0.5]))
    run.count("stations_sharing_an_address_with_a_router_port_elsewhere", getattr(topo, "coincidences", 0))
    CLOCK.drive(duration=1.0, max_steps=200000)
    st = topo.stations
    names = sorted(st)
    seq = 0
    for rnd in range(6):
        src = rng.choice(names)
        s = st[src]
        remote = [n for n in topo.nets if n != s["net"]]
        if not remote:
            return
        net = rng.choice(remote)
        burst = []
        for _ in range(rng.randrange(2, 5)):
            on_net = [k for k, v in st.items() if v["net"] == net]
            if on_net and rng.random() < 0.6:
                burst.append(("remote-station", rng.choice(on_net)))
            else:
                burst.append(("remote-broadcast", net))
        if rng.random() < 0.3:
            burst.insert(rng.randrange(len(burst) + 1), ("global-broadcast", None))
        wit = {"topology": topo.describe(), "source": src, "burst": burst, "round": rnd, "announce": announce}
        l0 = len(topo.log)
        tokens = []
        try:
            for kind, tgt in burst:
                seq += 1
                tokens.append("B%05d" % seq)
                s["user"].send(dest_address(topo, src, kind, tgt), tokens[-1])
            CLOCK.drive(duration=8.0, max_steps=400000)
        except StepBudgetExceeded as err:
            run.violation("forwarding-does-not-terminate", dict(wit, error=str(err)))
            return
        except Exception as err:
            run.violation("send-raised/" + type(err).__name__, dict(wit, error=repr(err)[:120]))
            return
        run.count("bursts")
        for tok, (kind, tgt) in zip(tokens, burst):
            run.case(("burst", nnets, rnd, tok, src, kind, str(tgt), repr(sorted(topo.describe()["routers"]))), sample=None)
            want = expected_recipients(topo, src, kind, tgt)
            names_got = [e["at"] for e in topo.log[l0:] if e["token"] == tok]
            run.count("burst_packets_checked")
            w2 = dict(wit, token_position=tokens.index(tok), kind=kind, target=tgt)
            if set(names_got) - want:
                run.violation("delivered-to-station-not-addressed/%s/in-burst" % kind, dict(w2, extra=sorted(set(names_got) - want)))
                return
            if len(names_got) != len(set(names_got)):
                run.violation("delivered-more-than-once/%s/in-burst" % kind, dict(w2, got=names_got))
                return
            if want - set(names_got) and all(other_port(topo, src, st[m]["net"]) for m in want - set(names_got)):
                run.violation(KNOWN_ROUTER_APP, dict(w2, missing=sorted(want - set(names_got))))
                continue
            if want - set(names_got):
                run.violation("not-delivered/%s/in-burst/position-%s" % (kind, "first" if tokens.index(tok) == 0 else "later"),
                              dict(w2, missing=sorted(want - set(names_got))))
                return
            # the source shown must name the originator here too
            for e in topo.log[l0:]:
                if e["token"] == tok:
                    shown = e["src"]
                    rcp = st[e["at"]]
                    if not ((shown.addrAddr == bytes([s["mac"]])) and (
                            (shown.addrType == Address.localStationAddr and rcp["net"] == s["net"]) or
                            (shown.addrType == Address.remoteStationAddr and shown.addrNet == s["net"]))):
                        if shown_through_other_port(topo, src, shown, rcp["net"]):
                            run.violation(KNOWN_ROUTER_APP, dict(w2, at=e["at"], shown=str(shown)))
                            continue
                        run.violation("source-address-does-not-name-the-originator/in-burst", dict(w2, at=e["at"], shown=str(shown)))
                        return


def is_i_am_router(octets):
    """an NPDU carrying I-Am-Router-To-Network (read from the octets, independent of the library)"""
    o = octets
    try:
        if o[0] != 1 or not (o[1] & 0x80):
            return False
        i = 2
        if o[1] & 0x20:
            i += 3 + o[i + 2]
        if o[1] & 0x08:
            i += 3 + o[i + 2]
        if o[1] & 0x20:
            i += 1
        return o[i] == 0x01
    except IndexError:
        return False


def run_slow_answers(run, rng, nnets):
    """a slow answer to path discovery: the I-Am-Router-To-Network a cold station asked for is still on the wire while traffic
    from that network passes by (the path is learned from it) and the station sends again, then the answer arrives: each
    packet is delivered once, to the addressed station only"""
    CLOCK.reset()
    topo = Topology(rng, nnets, announce=False, known=True, router_apps=0.0)
    CLOCK.drive(duration=1.0, max_steps=200000)
    st = topo.stations
    a = rng.choice(sorted(st))
    remote = sorted(k for k, v in st.items() if v["net"] != st[a]["net"])
    if not remote:
        return
    b = rng.choice(remote)
    slow = rng.choice([0.4, 2.0, 5.0])

    def slow_i_am_router(n, rec):
        if is_i_am_router(rec["octets"]):
            return (DELAY, slow)
        return None
    topo.nets[st[a]["net"]].plan.fn = slow_i_am_router
    wit = {"topology": topo.describe(), "asking": a, "peer": b, "answer_delayed_by": slow}
    l0 = len(topo.log)
    sends = [(a, b, "W00001"), (b, a, "W00002"), (a, b, "W00003"), (a, b, "W00004")]
    try:
        for k, (src, dst, tok) in enumerate(sends):
            st[src]["user"].send(dest_address(topo, src, "remote-station", dst), tok)
            CLOCK.drive(duration=slow / 4.0 if k < 3 else 10.0 + slow, max_steps=400000)
    except StepBudgetExceeded as err:
        run.violation("forwarding-does-not-terminate", dict(wit, error=str(err)))
        return
    except Exception as err:
        run.violation("send-raised/" + type(err).__name__, dict(wit, error=repr(err)[:120]))
        return
    run.count("slow_answer_scenarios")
    run.count("slow_answers_delayed", len(topo.nets[st[a]["net"]].plan.applied))
    for src, dst, tok in sends:
        run.case(("slow-answer", nnets, tok, src, dst, slow, repr(sorted(topo.describe()["routers"]))), sample=None)
        got = [e["at"] for e in topo.log[l0:] if e["token"] == tok]
        run.count("slow_answer_packets_checked")
        w2 = dict(wit, token=tok, source=src, target=dst, got=got)
        if set(got) - {dst}:
            run.violation("delivered-to-station-not-addressed/remote-station/slow-path-answer", w2)
            return
        if len(got) > 1:
            run.violation("delivered-more-than-once/remote-station/slow-path-answer", w2)
            return
        if not got:
            run.violation("not-delivered/remote-station/slow-path-answer", w2)
            return


def route(topo, src_net, dst_net):
    """routers on the (unique, tree) path from src_net to dst_net: list of (router, arrival net)"""
    prev = {src_net: None}
    queue = [src_net]
    while queue:
        n = queue.pop(0)
        for r in topo.routers:
            if n in r["ports"]:
                for m in r["ports"]:
                    if m not in prev:
                        prev[m] = (n, r)
                        queue.append(m)
    if dst_net not in prev:
        return None
    path = []
    n = dst_net
    while prev[n] is not None:
        pn, r = prev[n]
        path.append((r, pn))
        n = pn
    return list(reversed(path))


def run_low_hop_counts(run, rng, topo, seq0):
    """packets that arrive at the first router with a small hop count (written by hand: the library's stations start at 255):
    one that arrives exhausted (0) goes nowhere; one with more hops left than routers on the path arrives, once, the count
    lowered by one per router"""
    st = topo.stations
    names = sorted(k for k in st if "router" not in st[k])
    seq = seq0
    for _ in range(6):
        src, tgt = rng.choice(names), rng.choice(names)
        path = route(topo, st[src]["net"], st[tgt]["net"])
        if not path or st[src]["net"] == st[tgt]["net"]:
            continue
        d = len(path)
        first, _n = path[0]
        for h in sorted({0, 1, d, d + 1, d + 2, 254}):
            seq += 1
            token = "H%05d" % seq
            octets = W.npci_build({"dnet": st[tgt]["net"], "dadr": bytes([st[tgt]["mac"]]), "hop": h, "payload": b"\x10\x08" + token.encode("ascii")})
            n_before = {n: len(lan.frames) for n, lan in topo.nets.items()}
            l0 = len(topo.log)
            try:
                topo.nets[st[src]["net"]].inject(Address(st[src]["mac"]), Address(first["ports"][st[src]["net"]]), octets)
                CLOCK.drive(duration=3.0, max_steps=300000)
            except StepBudgetExceeded as err:
                run.violation("forwarding-does-not-terminate", {"topology": topo.describe(), "error": str(err)})
                return seq
            except Exception as err:
                run.violation("injected-packet-raised/" + type(err).__name__, {"topology": topo.describe(), "hop_count": h, "error": repr(err)[:100]})
                return seq
            got = [e["at"] for e in topo.log[l0:] if e["token"] == token]
            elsewhere = [(n, W.npci_parse(rec["octets"])["hop"]) for n, lan in topo.nets.items() for rec in lan.frames[n_before[n]:]
                         if token.encode("ascii") in rec["octets"] and str(rec["src"]) != str(st[src]["mac"])]
            wit = {"topology": topo.describe(), "source": src, "target": tgt, "routers_on_path": d, "hop_count_on_arrival": h,
                   "delivered_to": got, "forwarded_as_(network, hop count)": elsewhere[:6]}
            run.case(("low-hop", seq, src, tgt, h, repr(sorted(topo.describe()["routers"]))), sample=None)
            run.count("low_hop_count_packets")
            sw = [r for r in CLOCK.swallowed.records if r["exc"]]
            if h == 0 and (got or elsewhere):
                run.violation("exhausted-packet-forwarded-or-delivered", wit)
                return seq
            if h >= d + 1 and got != [tgt]:
                run.violation("packet-with-hops-to-spare-not-delivered-once" + ("/%s@%s" % (sw[-1]["exc"], (sw[-1]["origin"] or "?").split(":")[1]) if sw else ""), wit)
                return seq
            if set(got) - {tgt}:
                run.violation("delivered-to-station-not-addressed/low-hop-count", wit)
                return seq
            for n, hop in elsewhere:
                if hop is None and n == st[tgt]["net"]:
                    continue            # last leg: the routing header is stripped
                if hop is None or hop < 0 or hop >= h:
                    run.violation("hop-count-not-lowered-on-forwarding", wit)
                    return seq
    return seq


def run_topology(run, rng, nnets, announce, cold_only=False, router_apps=0.0):
    CLOCK.reset()
    topo = Topology(rng, nnets, announce=announce, router_apps=router_apps)
    CLOCK.drive(duration=1.0, max_steps=200000)           # start-up announcements
    st = topo.stations
    names = sorted(st)
    combos = []
    for src in names:
        s = st[src]
        for tgt in names:
            if tgt == src:
                continue
            if st[tgt]["net"] == s["net"]:
                combos.append((src, "local-station", tgt))
            else:
                combos.append((src, "remote-station", tgt))
        combos.append((src, "local-broadcast", None))
        combos.append((src, "global-broadcast", None))
        for n in topo.nets:
            if n != s["net"]:
                combos.append((src, "remote-broadcast", n))
            elif s["knows"]:
                combos.append((src, "remote-broadcast", n))      # own number, known: treated as local
    rng.shuffle(combos)
    if len(combos) > 60:
        combos = combos[:60]
    seq = 0
    for phase in ("cold", "warm", "numbers-learned"):
        if phase == "numbers-learned":
            # routers announce the network numbers of their ports (Network-Number-Is): stations bound without a number learn it
            for r in topo.routers:
                try:
                    r["nse"].network_number_is()
                except Exception as err:
                    run.violation("network-number-announcement-raised/" + type(err).__name__, {"topology": topo.describe(), "error": repr(err)[:100]})
            try:
                CLOCK.drive(duration=2.0, max_steps=300000)
            except StepBudgetExceeded as err:
                run.violation("forwarding-does-not-terminate", {"topology": topo.describe(), "error": str(err)})
                return
            run.count("network_number_announcements", len(topo.routers))
        for src, kind, tgt in combos:
            seq += 1
            token = "K%05d" % seq
            wit = {"topology": topo.describe(), "source": src, "kind": kind, "target": tgt, "phase": phase, "announce": announce}
            want = expected_recipients(topo, src, kind, tgt)
            n_before = {n: len(lan.frames) for n, lan in topo.nets.items()}
            l0 = len(topo.log)
            try:
                st[src]["user"].send(dest_address(topo, src, kind, tgt), token)
                CLOCK.drive(duration=5.0, max_steps=300000)
            except StepBudgetExceeded as err:
                run.violation("forwarding-does-not-terminate", dict(wit, error=str(err)))
                return
            except Exception as err:
                run.violation("send-raised/" + type(err).__name__, dict(wit, error=repr(err)[:120]))
                continue
            got = [e for e in topo.log[l0:] if e["token"] == token]
            crossing = kind in ("remote-station", "remote-broadcast", "global-broadcast", "local-broadcast")
            run.case((nnets, seq, src, kind, str(tgt), phase, repr(sorted(topo.describe()["routers"]))), nontrivial=crossing,
                     sample={"topology": topo.describe(), "source": src, "kind": kind, "target": tgt, "phase": phase}, sample_key=(kind, phase))
            run.count("packets_sent")
            names_got = [e["at"] for e in got]
            extra = set(names_got) - want
            missing = want - set(names_got)
            dups = {n for n in names_got if names_got.count(n) > 1}
            swallowed = [r for r in CLOCK.swallowed.records if r["exc"]]
            if extra:
                run.violation("delivered-to-station-not-addressed/" + kind, dict(wit, extra=sorted(extra)))
                continue
            if dups:
                run.violation("delivered-more-than-once/" + kind, dict(wit, dups=sorted(dups)))
                continue
            if missing and all(other_port(topo, src, st[m]["net"]) for m in missing):
                run.violation(KNOWN_ROUTER_APP, dict(wit, missing=sorted(missing)))
                continue
            if missing:
                run.violation("not-delivered/%s/%s" % (kind, phase) + ("/%s@%s" % (swallowed[-1]["exc"], (swallowed[-1]["origin"] or "?").split(":")[1]) if swallowed else ""),
                              dict(wit, missing=sorted(missing), swallowed=swallowed[-2:]))
                continue
            run.count("deliveries_checked", len(got))
            total = wire_rules(run, topo, token, wit, n_before)
            if total > 255 * max(1, len(topo.routers)) * 2:
                run.violation("too-many-frames-for-one-packet", dict(wit, frames=total))
            # the source address shown names the originator: reply to it from every recipient
            s = st[src]
            for e in got:
                shown = e["src"]
                rcp = st[e["at"]]
                ok_src = (shown.addrAddr == bytes([s["mac"]])) and (
                    (shown.addrType == Address.localStationAddr and rcp["net"] == s["net"]) or
                    (shown.addrType == Address.remoteStationAddr and shown.addrNet == s["net"]))
                if not ok_src and shown_through_other_port(topo, src, shown, rcp["net"]):
                    run.violation(KNOWN_ROUTER_APP, dict(wit, at=e["at"], shown=str(shown)))
                    continue
                if not ok_src:
                    run.violation("source-address-does-not-name-the-originator", dict(wit, at=e["at"], shown=str(shown)))
                    break
                seq += 1
                rtoken = "R%05d" % seq
                l1 = len(topo.log)
                try:
                    rcp["user"].send(shown, rtoken)
                    CLOCK.drive(duration=5.0, max_steps=300000)
                except Exception as err:
                    run.violation("reply-raised/" + type(err).__name__, dict(wit, at=e["at"], error=repr(err)[:100]))
                    break
                back = [x["at"] for x in topo.log[l1:] if x["token"] == rtoken]
                run.count("replies_checked")
                if back != [src] and not back and other_port(topo, e["at"], s["net"]):
                    run.violation(KNOWN_ROUTER_APP, dict(wit, replier=e["at"], shown=str(shown)))
                    continue
                if back != [src]:
                    run.violation("reply-to-shown-source-does-not-reach-originator/" + kind, dict(wit, replier=e["at"], shown=str(shown), reached=back))
                    break
        if cold_only:
            break
    if rng.random() < 0.5:
        run_low_hop_counts(run, rng, topo, seq)
    run.count("topologies")


def run_ring(run, rng, nrouters):
    CLOCK.reset()
    topo = Topology(rng, nrouters, cyclic=1, announce=False, known=True)
    CLOCK.drive(duration=1.0, max_steps=200000)
    names = sorted(topo.stations)
    src = names[0]
    # only the global broadcast needs no path discovery; Who-Is-Router / I-Am-Router exchanges in a cyclic topology are
    # re-originated hop by hop without a hop count and are not what the statement is about
    for kind, tgt in (("global-broadcast", None),):
        wit = {"ring_of_routers": nrouters, "kind": kind, "topology": topo.describe()}
        n_before = {n: len(lan.frames) for n, lan in topo.nets.items()}
        try:
            topo.stations[src]["user"].send(dest_address(topo, src, kind, tgt), "RING1")
            CLOCK.drive(duration=30.0, max_steps=600000)
        except StepBudgetExceeded as err:
            run.violation("forwarding-does-not-terminate/ring", dict(wit, error=str(err)))
            return
        total = sum(1 for n, lan in topo.nets.items() for rec in lan.frames[n_before[n]:] if b"RING1" in rec["octets"])
        over = any(lan.overflow for lan in topo.nets.values())
        run.count("ring_packets")
        run.counters["max_frames_for_one_packet_in_a_ring"] = max(run.counters.get("max_frames_for_one_packet_in_a_ring", 0), total)
        run.case(("ring", nrouters, kind), sample={"ring_of_routers": nrouters, "kind": kind, "frames": total}, sample_key=("ring", kind))
        if total > 255 * nrouters * 2 + 10 or (over and total >= 20000):
            run.violation("too-many-frames-for-one-packet/ring", dict(wit, frames=total))
        # every forwarded copy must have a lower hop count than the one it came from: max hop seen is 255, min >= 0
        hops = []
        for n, lan in topo.nets.items():
            for rec in lan.frames[n_before[n]:]:
                if b"RING1" in rec["octets"]:
                    try:
                        h = W.npci_parse(rec["octets"])["hop"]
                    except W.Malformed:
                        h = None
                    if h is not None:
                        hops.append(h)
        if hops and min(hops) < 0:
            run.violation("negative-hop-count", dict(wit))


def main():
    run = Run("C06", "exploration", RULE, assumptions=[
        "loop-free (tree) internetworks for the delivery clauses; cyclic topologies only for termination",
        "a station that does not know its own network number addressing its own network by number is not generated",
        "some routers also host an application (a station on the network of their first port)"])
    if run.tier == "replay":
        run.inconclusive_because("replay: re-run the tier with the same VERIF_SEED (topologies are derived from it)")
        return run.finish()
    thorough = run.tier == "thorough"
    if thorough and run.args.shard is None:
        run.run_shards("rv.props.c06", timeout=3400)
        return run.finish(require=("topologies", "deliveries_checked", "replies_checked", "forwarded_copies_checked", "ring_packets", "burst_packets_checked"))
    rng = run.rng("c06")
    n = (9600 if thorough else 150) // (run.shard[1] if thorough else 1) + 1
    for i in range(n):
        nnets = rng.choice([2, 2, 3, 3, 4, 5, 6, 8])
        run_topology(run, rng, nnets, announce=rng.random() < 0.5, router_apps=rng.choice([0.0, 0.0, 0.5, 1.0]))
        if i % 3 == 0:
            run_bursts(run, rng, rng.choice([2, 3, 4, 5]), announce=rng.random() < 0.3)
    # after the drawn topologies, so that they stay what they were for a given seed
    srng = run.rng("c06-slow-answers")
    for i in range(n):
        run_slow_answers(run, srng, srng.choice([2, 2, 3, 4]))
    for k in (3, 4, 5):
        if thorough and not run.mine(k):
            continue
        run_ring(run, rng, k)
    run.finish(require=("topologies", "deliveries_checked", "replies_checked", "forwarded_copies_checked", "ring_packets", "slow_answer_packets_checked", "slow_answers_delayed")
               if not thorough or run.shard[0] in (3, 4, 5) else ("topologies", "deliveries_checked", "replies_checked", "forwarded_copies_checked", "burst_packets_checked", "slow_answer_packets_checked", "slow_answers_delayed"))


if __name__ == "__main__":
    main_guard(main)
