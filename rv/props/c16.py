"""
C16  COV subscribers are told of every qualifying change, and only while subscribed.

A real device (ChangeOfValueServices) with analog, binary, multi-state and
pulse-converter objects, 1..3 real subscriber stacks on the virtual LAN,
random timelines of subscribe / renew / cancel / writes / time steps under the
virtual clock.  A reference subscription table + change detector is stepped
in parallel; after every step the notifications that arrived are compared.
"""

import struct

from .. import common
from ..common import Run, main_guard

common.bootstrap()

from ..vclock import CLOCK, StepBudgetExceeded
from ..fnet import FaultNet, Plan
from ..stacks import ServiceDevice, Subscriber, SyncClient

from bacpypes.object import (register_object_type, AnalogValueObject, BinaryValueObject, MultiStateValueObject, PulseConverterObject,
                             WritableProperty)
from bacpypes.primitivedata import Real, Unsigned, Date, Time
from bacpypes.basetypes import BinaryPV, DateTime
from bacpypes.constructeddata import Any
from bacpypes.local.object import CurrentPropertyListMixIn
from bacpypes.apdu import (SubscribeCOVRequest, SimpleAckPDU, WritePropertyRequest, ReadPropertyRequest, ReadPropertyACK, ErrorPDU,
                           RejectPDU, AbortPDU)
from bacpypes.basetypes import COVSubscription
from bacpypes.constructeddata import ListOf

RULE = ("random timelines (40..120 steps) of subscribe / re-subscribe (changed lifetime 0..120 s or absent, changed confirmed "
        "flag) / cancel from 1..3 subscribers x 2 process ids on analog (increment 1.0 / 0.5), binary, multi-state and "
        "pulse-converter objects, interleaved with direct and over-the-wire value writes (sub-increment steps, exact "
        "increment, returns to the old value, bursts inside one instant), status-flag writes and time steps across every "
        "expiry.  After every step the notifications received are compared with a reference subscription table; "
        "activeCovSubscriptions is read over the wire.  A case is one timeline")

f32 = lambda x: struct.unpack(">f", struct.pack(">f", x))[0]


@register_object_type(vendor_id=999)
class CAV(CurrentPropertyListMixIn, AnalogValueObject):
    properties = [WritableProperty("presentValue", Real)]


@register_object_type(vendor_id=999)
class CBV(CurrentPropertyListMixIn, BinaryValueObject):
    properties = [WritableProperty("presentValue", BinaryPV)]


@register_object_type(vendor_id=999)
class CMV(CurrentPropertyListMixIn, MultiStateValueObject):
    properties = [WritableProperty("presentValue", Unsigned)]


class RefSub:
    def __init__(self, confirmed, lifetime, now, value):
        self.confirmed = confirmed
        self.set_life(lifetime, now)
        self.last = value           # last value reported to this subscriber

    def set_life(self, lifetime, now):
        self.lifetime = lifetime or 0
        self.expires = (now + lifetime) if lifetime else None


class World:
    def __init__(self, run, rng, nsubs, with_pc):
        self.run = run
        self.rng = rng
        CLOCK.reset()
        self.lan = FaultNet("lan", Plan())
        self.lan.frame_cap = 10 ** 9      # long sessions: the per-transaction frame budget does not apply
        self.dev = ServiceDevice(self.lan, 5)
        self.objs = {}
        inc = rng.choice([1.0, 0.5, 10.0])
        self.add(CAV(objectIdentifier=("analogValue", 1), objectName="av", presentValue=10.0, statusFlags=[0, 0, 0, 0], covIncrement=inc), "analog", inc)
        self.add(CBV(objectIdentifier=("binaryValue", 1), objectName="bv", presentValue="inactive", statusFlags=[0, 0, 0, 0]), "binary", None)
        self.add(CMV(objectIdentifier=("multiStateValue", 1), objectName="mv", presentValue=1, statusFlags=[0, 0, 0, 0], numberOfStates=5), "multi", None)
        if with_pc:
            self.add(PulseConverterObject(objectIdentifier=("pulseConverter", 1), objectName="pc", presentValue=0.0, statusFlags=[0, 0, 0, 0],
                                          updateTime=DateTime(date=Date().now().value, time=Time().now().value), covIncrement=5.0, covPeriod=0),
                     "analog", 5.0)
        self.subs = [Subscriber(self.lan, 10 + i) for i in range(nsubs)]
        self.writer = SyncClient(self.lan, 30)
        CLOCK.settle()
        self.table = {}             # (sub index, proc, oid) -> RefSub
        self.reported = {}          # oid -> last value reported to anybody (per-object reading of 'last reported value')
        self.cursor = [0] * nsubs
        self.hist = []
        self.ok = True

    def add(self, obj, kind, inc):
        self.dev.app.add_object(obj)
        self.objs[tuple(obj.objectIdentifier)] = {"obj": obj, "kind": kind, "inc": inc}

    # ------------------------------------------------------------------
    def value(self, oid):
        o = self.objs[oid]["obj"]
        v = o.presentValue
        if self.objs[oid]["kind"] == "binary":
            return BinaryPV.enumerations.get(v, v) if isinstance(v, str) else v
        return v

    def flags(self, oid):
        return list(self.objs[oid]["obj"].statusFlags.value) if hasattr(self.objs[oid]["obj"].statusFlags, "value") else list(self.objs[oid]["obj"].statusFlags)

    def expire(self):
        now = CLOCK.now
        for k in [k for k, s in self.table.items() if s.expires is not None and s.expires <= now]:
            del self.table[k]

    def fail(self, key, **detail):
        self.ok = False
        self.run.violation(key, dict(detail, history=self.hist[-10:], at=CLOCK.now - CLOCK.START))

    def collect(self):
        """notifications that arrived since the last call, per subscriber"""
        out = []
        for i, s in enumerate(self.subs):
            new = s.app.notifications[self.cursor[i]:]
            self.cursor[i] = len(s.app.notifications)
            for n in new:
                out.append((i, n))
        return out

    def check_content(self, i, n, sub, oid):
        """kind, values and remaining time of one notification"""
        self.run.count("notifications_checked")
        if n["confirmed"] != bool(sub.confirmed):
            return self.fail("notification-kind-differs-from-latest-subscription", subscriber=i, got="confirmed" if n["confirmed"] else "unconfirmed",
                             asked="confirmed" if sub.confirmed else "unconfirmed")
        v = n["values"].get("presentValue")
        want = self.value(oid)
        if self.objs[oid]["kind"] == "analog":
            same = isinstance(v, float) and f32(v) == f32(want)
        else:
            same = v == want or (isinstance(v, str) and BinaryPV.enumerations.get(v) == want)
        if not same:
            return self.fail("notification-carries-stale-or-wrong-value", subscriber=i, got=repr(v), current=repr(want))
        if n["values"].get("statusFlags") != self.flags(oid):
            return self.fail("notification-carries-wrong-status-flags", subscriber=i, got=n["values"].get("statusFlags"), current=self.flags(oid))
        rem = 0 if sub.expires is None else sub.expires - n["t"]
        if not (rem - 1 <= n["remaining"] <= rem + 1):
            return self.fail("remaining-lifetime-wrong" + ("/indefinite-subscription" if sub.expires is None else ""), subscriber=i,
                             reported=n["remaining"], actual=rem)
        return True

    # ------------------------------------------------------------------
    def subscribe(self, i, proc, oid, confirmed, lifetime):
        self.expire()
        self.hist.append(("subscribe", i, proc, oid, confirmed, lifetime, round(CLOCK.now - CLOCK.START, 2)))
        req = SubscribeCOVRequest(subscriberProcessIdentifier=proc, monitoredObjectIdentifier=oid, destination=self.dev.address)
        req.issueConfirmedNotifications = confirmed
        if lifetime is not None:
            req.lifetime = lifetime
        ack = self.subs[i].call(req)
        self.run.count("subscribes")
        if not isinstance(ack, SimpleAckPDU):
            return self.fail("subscription-not-acknowledged" + ("/lifetime-absent" if lifetime is None else ""), answer=type(ack).__name__, subscriber=i)
        key = (i, proc, oid)
        if key in self.table:
            s = self.table[key]
            s.confirmed = confirmed
            s.set_life(lifetime, CLOCK.now)
            self.run.count("renewals")
        else:
            s = self.table[key] = RefSub(confirmed, lifetime, CLOCK.now, None)
        got = self.collect()
        mine = [(j, n) for j, n in got if j == i and n["proc"] == proc and n["obj"] == oid]
        other = [(j, n) for j, n in got if not (j == i and n["proc"] == proc and n["obj"] == oid)]
        if len(mine) != 1:
            return self.fail("no-initial-notification" if not mine else "initial-notification-repeated", subscriber=i, n=len(mine),
                             renewal=self.hist[-1] and any(h[0] == "subscribe" and h[1:4] == (i, proc, oid) for h in self.hist[:-1]))
        if other:
            return self.fail("notification-without-change", to=[j for j, n in other])
        if not self.check_content(i, mine[0][1], s, oid):
            return False
        s.last = self.value(oid)
        self.reported[oid] = self.value(oid)
        return True

    def cancel(self, i, proc, oid):
        self.expire()
        self.hist.append(("cancel", i, proc, oid, round(CLOCK.now - CLOCK.START, 2)))
        req = SubscribeCOVRequest(subscriberProcessIdentifier=proc, monitoredObjectIdentifier=oid, destination=self.dev.address)
        ack = self.subs[i].call(req)
        self.run.count("cancels")
        if not isinstance(ack, SimpleAckPDU):
            return self.fail("cancellation-not-acknowledged", answer=type(ack).__name__)
        self.table.pop((i, proc, oid), None)
        got = self.collect()
        if got:
            return self.fail("notification-on-cancellation", to=[j for j, n in got])
        return True

    def change(self, oid, values, flags=None, wire=False):
        """one or several writes inside one instant"""
        self.expire()
        o = self.objs[oid]
        before = self.value(oid)
        before_flags = self.flags(oid)
        self.hist.append(("write", oid, values, flags, "wire" if wire else "direct", round(CLOCK.now - CLOCK.START, 2)))
        for v in values:
            if wire:
                req = WritePropertyRequest(objectIdentifier=oid, propertyIdentifier="presentValue", destination=self.dev.address)
                req.propertyValue = Any()
                req.propertyValue.cast_in(Real(v) if o["kind"] == "analog" else BinaryPV(v) if o["kind"] == "binary" else Unsigned(v))
                ack = self.writer.call(req)
                if not isinstance(ack, SimpleAckPDU):
                    return self.fail("write-not-acknowledged", answer=type(ack).__name__)
            else:
                o["obj"].presentValue = v
        if flags is not None:
            o["obj"].statusFlags = flags
        CLOCK.settle()
        self.run.count("writes", len(values))
        after = self.value(oid)
        after_flags = self.flags(oid)
        # which subscriptions must / may be notified
        path = [before] + [BinaryPV.enumerations.get(v, v) if isinstance(v, str) else v for v in values]
        got = self.collect()
        live = {k: s for k, s in self.table.items() if k[2] == oid}
        for j, n in got:
            key = (j, n["proc"], n["obj"])
            if key not in self.table:
                was = [h for h in self.hist if h[0] in ("cancel",) and h[1:4] == key]
                return self.fail("notification-after-cancellation" if was else "notification-after-lifetime-elapsed-or-without-subscription",
                                 subscriber=j, proc=n["proc"], obj=n["obj"])
            if n["obj"] != oid:
                return self.fail("notification-for-unchanged-object", obj=n["obj"])
        flags_changed = after_flags != before_flags
        for key, s in live.items():
            mine = [n for j, n in got if (j, n["proc"], n["obj"]) == key]
            if o["kind"] == "analog":
                inc = o["inc"]
                # two readings of "last reported value" (DESIGN C16 tolerance 1): per object and per subscriber
                def qualifies(base):
                    return any(abs(f32(x) - f32(base)) >= inc - 1e-9 for x in path[1:])
                need_obj = qualifies(self.reported.get(oid, before))
                need_sub = qualifies(s.last if s.last is not None else before)
                must = (need_obj and need_sub) or flags_changed
                may = need_obj or need_sub or flags_changed
            else:
                changed = any(a != b for a, b in zip(path, path[1:]))
                must = (after != before) or flags_changed
                may = changed or flags_changed
            if must and not mine:
                return self.fail("qualifying-change-not-notified/" + o["kind"] + ("/flags" if flags_changed and after == before else ""),
                                 subscriber=key[0], proc=key[1], before=repr(before), path=repr(path[1:]))
            if not may and mine:
                return self.fail("notification-without-qualifying-change/" + o["kind"], subscriber=key[0], before=repr(before), path=repr(path[1:]),
                                 last_reported=repr(self.reported.get(oid)))
            nq = max(1, sum(1 for a, b in zip(path, path[1:]) if a != b) + (1 if flags_changed else 0))
            if len(mine) > nq:
                return self.fail("more-notifications-than-changes", subscriber=key[0], n=len(mine), changes=nq)
            if len(values) == 1 and flags is None and len(mine) > 1:
                return self.fail("change-notified-more-than-once", subscriber=key[0], n=len(mine))
            if mine:
                if not self.check_content(key[0], mine[-1], s, oid):
                    return False
                s.last = after
        if any(True for j, n in got):
            self.reported[oid] = after
        return True

    def advance(self, dt):
        self.hist.append(("advance", dt, round(CLOCK.now - CLOCK.START, 2)))
        try:
            CLOCK.drive(duration=dt, max_steps=200000)
        except StepBudgetExceeded as err:
            return self.fail("device-does-not-quiesce", error=str(err))
        got = self.collect()
        self.expire()
        if got:
            j, n = got[0]
            return self.fail("notification-without-change/while-idle", subscriber=j, obj=n["obj"])
        return True

    def read_active(self):
        """activeCovSubscriptions over the wire == the live subscriptions"""
        self.expire()
        ack = self.writer.call(ReadPropertyRequest(objectIdentifier=("device", 5), propertyIdentifier="activeCovSubscriptions", destination=self.dev.address))
        self.run.count("active_subscription_reads")
        if not isinstance(ack, ReadPropertyACK):
            swallowed = [r for r in CLOCK.swallowed.records if r["exc"]][-1:]
            return self.fail("active-subscriptions-not-readable" + ("/%s@%s" % (swallowed[0]["exc"], (swallowed[0]["origin"] or "?").split(":")[1]) if swallowed else ""),
                             answer=type(ack).__name__, swallowed=swallowed)
        try:
            lst = ack.propertyValue.cast_out(ListOf(COVSubscription))
        except Exception as err:
            return self.fail("active-subscriptions-not-decodable", error=repr(err)[:100])
        got = set()
        for c in lst:
            mac = bytes(c.recipient.recipient.address.macAddress)
            got.add((mac[0] - 10, c.recipient.processIdentifier, tuple(c.monitoredPropertyReference.objectIdentifier), bool(c.issueConfirmedNotifications)))
        want = {(k[0], k[1], k[2], bool(s.confirmed)) for k, s in self.table.items()}
        if {g[:3] for g in got} != {w[:3] for w in want}:
            return self.fail("active-subscriptions-list-differs", listed=sorted(map(repr, got)), live=sorted(map(repr, want)))
        if got != want:
            return self.fail("active-subscriptions-list-shows-old-confirmed-flag", listed=sorted(map(repr, got)), live=sorted(map(repr, want)))
        if len(lst) != len(want):
            return self.fail("subscription-listed-twice", n=len(lst))
        for c in lst:
            key = (bytes(c.recipient.recipient.address.macAddress)[0] - 10, c.recipient.processIdentifier, tuple(c.monitoredPropertyReference.objectIdentifier))
            s = self.table[key]
            rem = 0 if s.expires is None else s.expires - CLOCK.now
            if not (rem - 1 <= c.timeRemaining <= rem + 1):
                return self.fail("listed-remaining-lifetime-wrong" + ("/indefinite-subscription" if s.expires is None else ""), listed=c.timeRemaining, actual=rem)
        return True


def timeline(run, rng, steps):
    # a 'dense' timeline: one subscriber with up to four process ids per object, mostly confirmed, so that several
    # notifications for one address are pending in the same instant
    dense = rng.random() < 0.3
    nsubs = 1 if dense else rng.choice([1, 2, 3])
    procs = [1, 2, 3, 4] if dense else [1, 2]
    w = World(run, rng, nsubs, with_pc=rng.random() < 0.5)
    if rng.random() < 0.4:
        # subscribers that answer a confirmed notification a moment later (same instant, next turn of their loop): meanwhile
        # the other notifications for their address wait in the device's queue
        for sub in w.subs:
            sub.app.defer_ack = True
        run.count("timelines_with_subscribers_answering_a_turn_later")
    oids = sorted(w.objs)
    if rng.random() < 0.3:
        # a subscriber that has forgotten one of its process ids and refuses the confirmed notifications for it (it still got
        # them): the other subscriptions of the same device are owed every change all the same
        sub = rng.choice(w.subs)
        sub.app.refuse_procs[rng.choice(procs)] = rng.choice(["error", "error", "reject", "abort"])
        run.count("timelines_with_refusing_subscriber")
    for k in range(steps):
        r = rng.random()
        oid = rng.choice(oids) if not (dense and rng.random() < 0.6) else oids[0]
        kind = w.objs[oid]["kind"]
        if r < 0.22:
            ok = w.subscribe(rng.randrange(nsubs), rng.choice(procs), oid if not dense else oids[0], rng.random() < (0.8 if dense else 0.5),
                             rng.choice([0, 0, 1, 5, 30, 60, 120, None]))
        elif r < 0.30:
            live = sorted(w.table)
            if live and rng.random() < 0.8:
                i, p, o = rng.choice(live)
                ok = w.cancel(i, p, o)
            else:
                ok = w.cancel(rng.randrange(nsubs), rng.choice(procs), oid)
        elif r < 0.62:
            cur = w.value(oid)
            if kind == "analog":
                inc = w.objs[oid]["inc"]
                step = rng.choice([inc / 4.0, inc / 2.0, inc, inc, 1.5 * inc, 3 * inc, -inc / 4.0, -inc, -2 * inc, 0.0])
                vals = [f32(cur + step)]
                if rng.random() < 0.2:
                    vals = [f32(cur + step), f32(cur + 2 * step), f32(cur)] if rng.random() < 0.5 else [f32(cur + inc * 3), f32(cur)]
            elif kind == "binary":
                vals = [rng.choice(["active", "inactive"])]
                if rng.random() < 0.2:
                    vals = ["active", "inactive"] if cur == 0 else ["inactive", "active"]
            else:
                vals = [rng.randrange(1, 6)]
                if rng.random() < 0.2:
                    vals = [rng.randrange(1, 6), cur]
            if rng.random() < 0.3 and oid[0] != "pulseConverter":
                # writes over the wire are separate instants: each one is a change of its own
                ok = True
                for v in vals:
                    ok = ok and w.change(oid, [v], wire=True)
            else:
                ok = w.change(oid, vals)
        elif r < 0.70:
            fl = [rng.randrange(2) for _ in range(4)]
            ok = w.change(oid, [], flags=fl)
        elif r < 0.92:
            nxt = [s.expires for s in w.table.values() if s.expires is not None]
            choices = [0.5, 1.0, 7.0, 45.0]
            if nxt:
                e = min(nxt) - CLOCK.now
                choices += [max(0.1, e - 0.5), e + 0.5, e + 2.0]
            ok = w.advance(rng.choice(choices))
        else:
            ok = w.read_active()
        if not ok or not w.ok:
            return
    w.read_active()
    if w.ok:
        run.count("timelines")


def slow_subscriber(run, rng):
    """a subscriber that takes a while to acknowledge: changes that happen meanwhile wait in the device's queue for that address;
    every one of them is owed, and in the order it happened (the last notification tells the object's value)"""
    w = World(run, rng, rng.choice([1, 2]), with_pc=False)
    delay = rng.choice([0.3, 1.0, 2.0])
    for sub in w.subs:
        sub.app.ack_delay = delay
    oid = rng.choice([("binaryValue", 1), ("multiStateValue", 1), ("analogValue", 1)])
    o = w.objs[oid]
    keys = []
    for i in range(len(w.subs)):
        for proc in rng.sample([1, 2, 3], rng.choice([1, 2])):
            confirmed = rng.random() < 0.8
            if not w.subscribe(i, proc, oid, confirmed, rng.choice([None, 0, 600])):
                return
            keys.append((i, proc, confirmed))
            w.advance(delay + 0.5)
    written = []
    cur = w.value(oid)
    nwrites = rng.choice([2, 3, 4, 6])
    # one of the subscriptions is cancelled in the middle of it: what waits in the queue for it is not sent any more
    cancel = (rng.randrange(1, nwrites), rng.choice(keys)) if rng.random() < 0.5 else None
    # ... or renewed for one more second only: it runs out while notifications for it wait
    runs_out = bool(cancel) and rng.random() < 0.4
    cancelled_at = None
    for k in range(nwrites):
        if cancel and k == cancel[0]:
            i_, proc_, conf_ = cancel[1]
            req = SubscribeCOVRequest(subscriberProcessIdentifier=proc_, monitoredObjectIdentifier=oid, destination=w.dev.address)
            if runs_out:
                req.issueConfirmedNotifications = conf_
                req.lifetime = 1
            ack = w.subs[i_].call(req)
            w.hist.append(("cancel", i_, proc_, oid, round(CLOCK.now - CLOCK.START, 2)))
            run.count("cancels")
            if not isinstance(ack, SimpleAckPDU):
                return w.fail("cancellation-not-acknowledged", answer=type(ack).__name__)
            # (a subscription of one second is over after one second; a notification up to a second later is tolerated like the
            #  remaining-time field is)
            cancelled_at = (CLOCK.now + (2.0 if runs_out else 0.0), len(written))
        if o["kind"] == "analog":
            cur = f32(cur + rng.choice([-3, 2, 4]) * o["inc"])
        elif o["kind"] == "binary":
            cur = 1 - cur
        else:
            cur = rng.choice([v for v in range(1, 6) if v != cur])
        o["obj"].presentValue = ("active" if cur else "inactive") if o["kind"] == "binary" else cur
        written.append(cur)
        w.hist.append(("write", oid, [cur], None, "direct", round(CLOCK.now - CLOCK.START, 2)))
        CLOCK.drive(duration=rng.choice([0.01, 0.05, 0.2]))
    CLOCK.drive(duration=(len(written) * len(keys) + 2) * (delay + 0.1) + 5.0)
    got = w.collect()
    run.count("slow_subscriber_sessions")
    for i, proc, confirmed in keys:
        vals = []
        for j, n in got:
            if j == i and n["proc"] == proc and n["obj"] == oid:
                v = n["values"].get("presentValue")
                vals.append(BinaryPV.enumerations.get(v, v) if isinstance(v, str) else (f32(v) if isinstance(v, float) else v))
        run.count("notifications_checked", len(vals))
        detail = dict(subscriber=i, proc=proc, confirmed=confirmed, written=repr(written), notified=repr(vals), unanswered_for=delay)
        if cancel and (i, proc, confirmed) == cancel[1]:
            late = [round(n["t"] - cancelled_at[0], 2) for j, n in got if j == i and n["proc"] == proc and n["obj"] == oid and n["t"] > cancelled_at[0] + 1e-9]
            run.count("cancellations_with_notifications_waiting" if not runs_out else "lifetimes_running_out_with_notifications_waiting")
            if late:
                return w.fail("notification-after-cancellation/slow-subscriber" if not runs_out else "notification-after-lifetime-elapsed/slow-subscriber",
                              seconds_after=late, **detail)
            if runs_out:
                continue            # (the renewal is answered with a notification of its own: only lateness is judged here)
            it = iter(written[:cancelled_at[1]])
            if not all(any(x == y for y in it) for x in vals):
                return w.fail("notifications-out-of-order/slow-subscriber", **detail)
            continue
        if sorted(map(repr, vals)) != sorted(map(repr, written)):
            return w.fail("qualifying-change-not-notified/slow-subscriber" if len(vals) < len(written) else "change-notified-more-than-once/slow-subscriber", **detail)
        if vals != written:
            return w.fail("notifications-out-of-order/slow-subscriber", **detail)


def main():
    run = Run("C16", "exploration", RULE, assumptions=[
        "'last reported value' of analog objects is read both per object and per subscriber: a notification is missing only if "
        "both readings require it and spurious only if neither allows it",
        "several writes inside one scheduler instant may be reported by one notification carrying the final value",
        "remaining lifetime is accepted within +-1 s; 0 for an indefinite subscription; a SubscribeCOV without lifetime is an "
        "indefinite subscription"])
    if run.tier == "replay":
        run.inconclusive_because("replay: re-run the tier with the same VERIF_SEED")
        return run.finish()
    thorough = run.tier == "thorough"
    if thorough and run.args.shard is None:
        run.run_shards("rv.props.c16", timeout=3400)
        return run.finish(require=("timelines", "notifications_checked", "subscribes", "renewals", "cancels", "writes", "active_subscription_reads"))
    rng = run.rng("c16")
    n = (48000 if thorough else 250) // (run.shard[1] if thorough else 1) + 1
    for i in range(n):
        steps = rng.choice([40, 80, 120])
        run.case(("timeline", run.shard[0], i), sample={"kind": "timeline", "steps": steps}, sample_key=("tl", steps))
        timeline(run, rng, steps)
        if i % 2 == 0:
            run.case(("slow", run.shard[0], i), sample={"kind": "slow-subscriber"}, sample_key=("slow",))
            slow_subscriber(run, rng)
    run.finish(require=("timelines", "notifications_checked", "subscribes", "renewals", "cancels", "writes", "active_subscription_reads"))


if __name__ == "__main__":
    main_guard(main)
