"""
C07  APDU fixed headers carry every field of all eight PDU types faithfully.

Oracle: rv.wire.apci_build / apci_parse (clause 20.1, independent), the two
code tables written out literally.
"""

import itertools

from .. import common
from ..common import Run, main_guard

common.bootstrap()

from .. import wire as W

from bacpypes.pdu import PDU
from bacpypes.errors import DecodingError
from bacpypes import apdu as A

RULE = ("per PDU type the cross product of flag bits x max-segments/max-response code points x octet fields over "
        "{0,1,127,128,255} x payload lengths {0,1,50} (quick: flags x codes complete, octet fields rotated; thorough: "
        "complete), encoded through APDU.encode and through the typed PDU classes; the four table functions over all "
        "code points and capabilities 0..2000; every octet string of length <=2 (quick) / <=3 (thorough) and random "
        "longer ones through APDU.decode.  distinct = distinct (fields) or octet strings")

OCT = [0, 1, 127, 128, 255]
PAYLOADS = [b"", b"\x55", bytes(range(50))]

FIELD_ATTR = {"seg": "apduSeg", "mor": "apduMor", "sa": "apduSA", "srv": "apduSrv", "nak": "apduNak", "seq": "apduSeq",
              "win": "apduWin", "max_segs": "apduMaxSegs", "max_resp": "apduMaxResp", "service": "apduService",
              "invoke": "apduInvokeID", "reason": "apduAbortRejectReason"}
TYPED = {0: A.ConfirmedRequestPDU, 1: A.UnconfirmedRequestPDU, 2: A.SimpleAckPDU, 3: A.ComplexAckPDU,
         4: A.SegmentAckPDU, 5: A.ErrorPDU, 6: A.RejectPDU, 7: A.AbortPDU}
NO_PAYLOAD = (W.SIMPLE_ACK, W.SEGMENT_ACK, W.REJECT, W.ABORT)


def field_space(t, complete, rng):
    """yield field dicts for PDU type t"""
    def octs(k):
        return OCT if complete else [OCT[(rot[0] + k) % 5], rng.choice(OCT)]
    rot = [0]
    pls = PAYLOADS if t not in NO_PAYLOAD else [b""]
    if t == W.CONFIRMED:
        for seg, mor, sa, ms, mr in itertools.product((0, 1), (0, 1), (0, 1), range(8), range(16)):
            rot[0] += 1
            for inv, svc in itertools.product(octs(0), octs(1)):
                segf = list(itertools.product(octs(2), octs(3))) if seg else [(None, None)]
                for seq, win in segf:
                    for p in (pls if complete else [pls[rot[0] % 3]]):
                        f = dict(type=t, seg=bool(seg), mor=bool(mor), sa=bool(sa), max_segs=ms, max_resp=mr, invoke=inv,
                                 service=svc, payload=p)
                        if seg:
                            f.update(seq=seq, win=win)
                        yield f
    elif t == W.UNCONFIRMED:
        for svc in range(256):
            for p in pls:
                yield dict(type=t, service=svc, payload=p)
    elif t in (W.SIMPLE_ACK, W.ERROR):
        for inv in range(256):
            for svc in OCT + [rng.randrange(256)]:
                for p in pls:
                    yield dict(type=t, invoke=inv, service=svc, payload=p)
    elif t == W.COMPLEX_ACK:
        for seg, mor in itertools.product((0, 1), (0, 1)):
            for inv, svc in itertools.product(OCT, OCT):
                segf = list(itertools.product(OCT, OCT)) if seg else [(None, None)]
                for seq, win in segf:
                    for p in pls:
                        f = dict(type=t, seg=bool(seg), mor=bool(mor), invoke=inv, service=svc, payload=p)
                        if seg:
                            f.update(seq=seq, win=win)
                        yield f
    elif t == W.SEGMENT_ACK:
        for nak, srv in itertools.product((0, 1), (0, 1)):
            for inv, seq, win in itertools.product(OCT, OCT + [2, 254], OCT + [2, 126]):
                yield dict(type=t, nak=bool(nak), srv=bool(srv), invoke=inv, seq=seq, win=win, payload=b"")
    elif t == W.REJECT:
        for inv in OCT + [7]:
            for reason in range(256):
                yield dict(type=t, invoke=inv, reason=reason, payload=b"")
    elif t == W.ABORT:
        for srv in (0, 1):
            for inv in OCT + [7]:
                for reason in range(256):
                    yield dict(type=t, srv=bool(srv), invoke=inv, reason=reason, payload=b"")


def fields_of(apdu):
    """fields the library decoded, in the reference's vocabulary"""
    t = apdu.apduType
    f = {"type": t}
    names = {0: ("seg", "mor", "sa", "max_segs", "max_resp", "invoke", "service"), 1: ("service",),
             2: ("invoke", "service"), 3: ("seg", "mor", "invoke", "service"), 4: ("nak", "srv", "invoke", "seq", "win"),
             5: ("invoke", "service"), 6: ("invoke", "reason"), 7: ("srv", "invoke", "reason")}[t]
    for n in names:
        f[n] = getattr(apdu, FIELD_ATTR[n])
    if t in (0, 3) and f["seg"]:
        f["seq"] = apdu.apduSeq
        f["win"] = apdu.apduWin
    f["payload"] = bytes(apdu.pduData)
    return f


def lib_encode(f, typed):
    if typed:
        x = TYPED[f["type"]]()
    else:
        x = A.APDU()
        x.apduType = f["type"]
    for k, v in f.items():
        if k in FIELD_ATTR:
            setattr(x, FIELD_ATTR[k], v)
    x.pduData = bytearray(f["payload"])
    if typed:
        mid = A.APDU()
        x.encode(mid)
        x = mid
    pdu = PDU()
    x.encode(pdu)
    return bytes(pdu.pduData)


def lib_decode(octets):
    a = A.APDU()
    a.decode(PDU(octets))
    return a


def check_fields(run, f, typed):
    want = W.apci_build(f)
    wit = {"fields": {k: v for k, v in f.items() if k != "payload"}, "payload_len": len(f["payload"]), "typed_class": typed}
    try:
        got = lib_encode(f, typed)
    except Exception as err:
        run.violation("header-encode-raised/type%d/%s" % (f["type"], type(err).__name__), dict(wit, error=repr(err)[:160]))
        return
    run.count("headers_encoded")
    if got != want:
        run.violation("header-layout-differs/type%d" % f["type"], dict(wit, got=got[:12], want=want[:12]))
        return
    try:
        a = lib_decode(got)
    except Exception as err:
        run.violation("own-header-not-decodable/type%d/%s" % (f["type"], type(err).__name__), wit)
        return
    back = fields_of(a)
    run.count("headers_decoded")
    exp = {k: v for k, v in f.items()}
    if back != exp:
        diff = {k: (back.get(k), exp.get(k)) for k in set(back) | set(exp) if back.get(k) != exp.get(k) and k != "payload"}
        run.violation("header-roundtrip-differs/type%d/%s" % (f["type"], ",".join(sorted(diff)) or "payload"), dict(wit, diff=diff))
        return
    if typed:
        # second stage: the typed class takes the header over unchanged
        y = TYPED[f["type"]]()
        y.decode(a)
        b2 = fields_of(y)
        if b2 != exp:
            run.violation("typed-decode-differs/type%d" % f["type"], wit)


def check_octets(run, o):
    try:
        ref = W.apci_parse(o)
    except W.Malformed:
        ref = None
    try:
        a = lib_decode(o)
    except DecodingError:
        run.count("refused")
        if ref is not None:
            run.violation("valid-header-refused/type%d" % ref["type"], {"octets": o[:24]})
        return
    except Exception as err:
        run.violation("decode-raised-other-than-DecodingError/" + type(err).__name__, {"octets": o[:24], "error": repr(err)[:120]})
        return
    run.count("decoded")
    if ref is None:
        run.violation("malformed-header-accepted", {"octets": o[:24]})
        return
    back = fields_of(a)
    ref = {k: v for k, v in ref.items() if k != "header_len"}
    if back != ref:
        diff = {k: (back.get(k), ref.get(k)) for k in set(back) | set(ref) if back.get(k) != ref.get(k)}
        run.violation("decoded-header-differs-from-reference/type%d" % ref["type"], {"octets": o[:24], "diff": diff})
        return
    # the same octets decoded into an object that still holds an earlier header (of another PDU type, say): every header field
    # of the object then says what a fresh object says
    global USED, USED_LAST
    if USED is None:
        USED = A.APDU()
    try:
        USED.decode(PDU(o))
    except Exception as err:
        run.violation("decoding-into-a-used-object-raised/" + type(err).__name__, {"octets": o[:24], "previous_octets": USED_LAST})
        USED = None
        return
    run.count("decoded_into_a_used_object")
    diff = {n: (getattr(USED, at), getattr(a, at)) for n, at in FIELD_ATTR.items() if getattr(USED, at) != getattr(a, at)}
    if USED.apduType != a.apduType or bytes(USED.pduData) != bytes(a.pduData):
        diff["type-or-payload"] = (USED.apduType, a.apduType)
    if diff:
        run.violation("decoded-into-a-used-object-differs/" + ",".join(sorted(diff)), {"octets": o[:24], "previous_octets": USED_LAST,
                                                                                    "diff_(used, fresh)": {k: repr(v) for k, v in diff.items()}})
    USED_LAST = o[:24]


USED = None
USED_LAST = None


def check_tables(run):
    # max segments accepted
    for c in range(8):
        run.case(("dms", c))
        try:
            v = A.decode_max_segments_accepted(c)
        except Exception as err:
            run.violation("decode_max_segments-raised", {"code": c, "error": repr(err)})
            continue
        run.count("table_points")
        want = W.MAX_SEGMENTS[c]
        if c == 7:
            ok = v is None or (isinstance(v, int) and v > 64)
        else:
            ok = v == want
        if not ok:
            run.violation("max-segments-table-differs", {"code": c, "got": v, "want": want})
    for x in [None] + list(range(0, 2001)):
        run.case(("ems", x))
        try:
            c = A.encode_max_segments_accepted(x)
        except Exception:
            c = "error"
        run.count("table_points")
        if not x:
            ok = c == 0
        elif x == 1:
            ok = c in ("error", 0)
        elif x > 64:
            ok = c == 7
        else:
            ok = c == max(k for k, v in W.MAX_SEGMENTS.items() if v is not None and v <= x)
        if not ok:
            run.violation("max-segments-encoding-not-rounded-down", {"capability": x, "code": c})
    # max apdu length accepted
    reserved_outcomes = {}
    for c in range(16):
        run.case(("dma", c))
        try:
            v = A.decode_max_apdu_length_accepted(c)
        except Exception as err:
            v = "error"
            if c not in W.MAX_APDU:
                reserved_outcomes[c] = type(err).__name__
        else:
            if c not in W.MAX_APDU:
                reserved_outcomes[c] = "value"
        run.count("table_points")
        if c in W.MAX_APDU:
            if v != W.MAX_APDU[c]:
                run.violation("max-apdu-table-differs", {"code": c, "got": v, "want": W.MAX_APDU[c]})
        elif v not in ("error", None):
            run.violation("reserved-max-apdu-code-given-a-length", {"code": c, "got": v})
    # the table is total over the sixteen code points: every reserved code is refused the same way (the transaction layer
    # answers the refusal it knows with an abort; a different exception for one code point escapes it)
    if len(set(reserved_outcomes.values())) > 1:
        odd = [c for c, o in reserved_outcomes.items() if list(reserved_outcomes.values()).count(o) == 1]
        run.violation("reserved-max-apdu-codes-not-refused-alike", {"outcomes": {str(c): o for c, o in sorted(reserved_outcomes.items())}, "odd_one": odd[:1]})
    for x in range(0, 2001):
        run.case(("ema", x))
        try:
            c = A.encode_max_apdu_length_accepted(x)
        except Exception:
            c = "error"
        run.count("table_points")
        if x < 50:
            ok = c == "error"
        else:
            ok = c == max(k for k, v in W.MAX_APDU.items() if v <= x)
        if not ok:
            run.violation("max-apdu-encoding-not-rounded-down", {"capability": x, "code": c})
        if c != "error":
            try:
                back = A.decode_max_apdu_length_accepted(c)
                if back > x:
                    run.violation("max-apdu-rounded-up", {"capability": x, "code": c, "means": back})
            except Exception:
                run.violation("max-apdu-encoding-not-decodable", {"capability": x, "code": c})


def main():
    run = Run("C07", "exploration", RULE, assumptions=[
        "rv/wire.py apci_build/apci_parse transcribe clause 20.1.2-20.1.9; reserved header bits are ignored on decode",
        "a capability of exactly one segment may be refused or encoded as 'unspecified' (no code means 1)"])
    if run.tier == "replay":
        return replay(run)
    thorough = run.tier == "thorough"
    if thorough and run.args.shard is None:
        run.run_shards("rv.props.c07")
        run.exhaustive = True
        return run.finish(require=("headers_encoded", "headers_decoded", "table_points", "refused", "decoded"))
    rng = run.rng("c07")
    idx = 0
    for t in range(8):
        for f in field_space(t, thorough, rng):
            idx += 1
            if not run.mine(idx):
                continue
            for typed in (False, True):
                run.case((tuple(sorted((k, v) for k, v in f.items())), typed),
                         sample={"fields": {k: v for k, v in f.items() if k != "payload"}, "octets": W.apci_build(f)[:8]},
                         sample_key=("t", t, typed))
                check_fields(run, f, typed)
    if run.shard[0] == 0:
        check_tables(run)
    maxlen = 3 if thorough else 2
    for ln in range(0, maxlen + 1):
        for k, tup in enumerate(itertools.product(range(256), repeat=ln)):
            if run.mine(k >> 8):
                check_octets(run, bytes(tup))
                run.bulk(1)
    run.sample({"octet_strings_exhaustive_up_to_length": maxlen})
    for _ in range((300000 if thorough else 30000) // run.shard[1]):
        o = bytes(rng.getrandbits(8) for _ in range(rng.randrange(3, 12)))
        run.case(o)
        check_octets(run, o)
    run.exhaustive = True
    run.finish(require=("headers_encoded", "headers_decoded", "table_points", "refused", "decoded"))


def replay(run):
    import json
    with open(run.replay_path) as f:
        w = json.load(f)["witness"]
    if "octets" in w:
        check_octets(run, bytes.fromhex(w["octets"][4:]))
    elif "fields" in w:
        f = dict(w["fields"], payload=bytes(w.get("payload_len", 0)))
        check_fields(run, f, w.get("typed_class", False))
    else:
        check_tables(run)
    run.finish()


if __name__ == "__main__":
    main_guard(main)
