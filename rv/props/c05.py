"""
C05  Segmented transfers deliver the exact payload and survive any single fault.

Same scenario runner as C04; the monitors here are byte equality of what
reaches the receiving application, the wire observer (sequence numbers,
more-follows, window discipline, via the independent decoder) and the
single-fault-is-repaired predicate.
"""

from .. import common
from ..common import Run, main_guard

common.bootstrap()

from ..vclock import CLOCK
from ..txn import (Cfg, run_scenario, check_payloads, check_wire, outcomes_of, expected_outcome, STATE_SEEN)
from ..txn_workload import boundary_sizes, single_faults, random_plans, describe_plan, latency_single_faults
from ..fnet import Plan
from ..stacks import enc_len

RULE = ("payload lengths 0..4L+2 around every segment boundary for L in {50,206,480} (quick: boundaries +-1 and a stride; "
        "thorough: all six sizes, every length for L=50) in both directions, windows 1..8 on each side, long transfers of "
        "255/256/257/300 (thorough 600) segments for the sequence-number wrap, every single fault (drop, duplicate, two "
        "delays, hold-behind-next) at every frame of each transfer, random multi-fault plans.  A case is (configuration, "
        "fault plan); non-trivial = a payload reached an application or the transfer was reported as aborted")


def evaluate(run, label, cfg, plan, single):
    res = run_scenario(cfg, plan)
    found = []
    stats = {}
    n_ind = check_payloads(res, lambda k, d: found.append((k, d)))
    check_wire(res, lambda k, d: found.append((k, d)), stats)
    for k, v in stats.items():
        if k.startswith("max_"):
            run.counters[k] = max(run.counters.get(k, 0), v)
        else:
            run.count(k, v)
    run.count("scenarios")
    run.count("indications_compared", n_ind)
    outs = outcomes_of(res)
    ok = [o for o in outs if o.get("outcome") == expected_outcome(cfg)]
    if ok:
        run.count("payload_deliveries_compared")
    if n_ind > 1:
        # a retry after the request timeout may be executed again by a server that had already finished: BACnet
        # has no duplicate suppression across completed transactions (C11 covers the "still being processed" case)
        run.count("requests_executed_again_after_retry")
    if res.budget_exceeded:
        found.append(("transfer-never-quiesces", {"error": res.budget_exceeded}))
    elif single and len(plan.applied) <= 1 and cfg.behaviour == "ack":
        # the loss, duplication or late arrival of any one frame is repaired: the transaction still succeeds
        run.count("single_fault_cases")
        if not ok:
            what = outs[0].get("outcome") if outs else "nothing"
            found.append(("single-fault-not-repaired/%s" % (plan.applied[0][1] if plan.applied else "none"),
                          {"outcome": what, "reason": outs[0].get("reason") if outs else None}))
    elif not outs:
        found.append(("transfer-ended-without-acknowledgement-or-abort", {}))
    for k, d in found:
        sw = [r for r in CLOCK.swallowed.records if r["exc"]]
        esc = res.lan.escapes
        key = k
        if k.startswith("single-fault-not-repaired"):
            key += "/" + fault_position(res, plan)
            if esc:
                key += "/escaped-%s@%s" % (esc[0]["exc"], (esc[0]["origin"] or "?").split(":")[1])
            elif sw:
                key += "/swallowed-%s@%s" % (sw[0]["exc"], (sw[0]["origin"] or "?").split(":")[1])
        run.violation(key, {"config": cfg.describe(), "config_class": label, "plan": describe_plan(plan), "detail": d,
                            "escapes": esc[:2], "swallowed": sw[:2]})
    return res


def fault_position(res, plan):
    """which kind of frame the fault hit (from the independent decoder): names the mechanism, not the index"""
    from ..stacks import decode_frame
    from .. import wire as W
    if not plan.applied:
        return "none"
    n = plan.applied[0][0]
    frames = res.lan.frames
    if n >= len(frames):
        return "beyond"
    d = decode_frame(frames[n])
    ap = d.get("apci") or {}
    t = ap.get("type")
    who = "client" if d["src"] == "1" else "server"
    if t == W.CONFIRMED:
        return "request-segment%s" % ("-first" if ap.get("seq", 0) == 0 else "-last" if not ap.get("mor") else "") if ap.get("seg") else "request-unsegmented"
    if t == W.COMPLEX_ACK:
        return "response-segment%s" % ("-first" if ap.get("seq", 0) == 0 else "-last" if not ap.get("mor") else "") if ap.get("seg") else "response-unsegmented"
    if t == W.SEGMENT_ACK:
        return "segment-ack-from-" + who
    return "type%s" % t


def main():
    run = Run("C05", "fault_enumeration", RULE, assumptions=[
        "virtual LAN and virtual clock (same runner as C04)",
        "window discipline is judged only in runs whose faults are drop/duplicate (with delayed acknowledgements the "
        "observer cannot know what the sender had been told)",
        "a retransmitted segment may repeat any sequence number sent before; fresh segments must be consecutive modulo 256"])
    if run.tier == "replay":
        return replay(run)
    thorough = run.tier == "thorough"
    if thorough and run.args.shard is None:
        run.run_shards("rv.props.c05", timeout=3400)
        return run.finish(require=("scenarios", "payload_deliveries_compared", "segments", "single_fault_cases"))
    rng = run.rng("c05")
    idx = 0
    cfgs = []
    # payload lengths around every boundary, both directions
    for L in ([50, 128, 206, 480, 1024, 1476] if thorough else [50, 206, 480]):
        rq = boundary_sizes(L)
        rp = boundary_sizes(L, ack=True)
        if L == 50:
            rq = sorted(set(rq) | set(range(0, 4 * L + 3, 1 if thorough else 7)))
            rp = sorted(set(rp) | set(range(0, 4 * L + 3, 1 if thorough else 7)))
        for s in rq:
            cfgs.append(("request-length", Cfg(c_max=L, s_max=L, req_size=s, rsp_size=3, c_win=rng.randrange(1, 9), s_win=rng.randrange(1, 9))))
        for s in rp:
            cfgs.append(("response-length", Cfg(c_max=L, s_max=L, req_size=3, rsp_size=s, c_win=rng.randrange(1, 9), s_win=rng.randrange(1, 9))))
    # windows
    import itertools
    for cw, sw in (itertools.product(range(1, 9), repeat=2) if thorough else [(1, 1), (1, 8), (8, 1), (4, 3), (8, 8), (2, 5)]):
        # (one retry is enough to repair one fault: retry counts 1..3)
        cfgs.append(("windows", Cfg(c_max=50, s_max=50, req_size=600, rsp_size=600, c_win=cw, s_win=sw, retries=rng.choice([1, 1, 2, 3]))))
    # a slow wire: transfers with window 1 that take much longer than four segment timeouts, nothing lost - the receiver's
    # watchdog has to be re-armed by every segment
    for direction in ("request", "response"):
        for nseg in ((60, 120) if not thorough else (60, 120, 200)):
            size = nseg * 40
            kw = dict(c_max=50, s_max=50, c_maxsegs=None, s_maxsegs=None, c_win=1, s_win=1, retries=rng.choice([1, 3]))
            cfgs.append(("slow-wire-window-1", Cfg(req_size=size if direction == "request" else 3, rsp_size=size if direction == "response" else 3, **kw)))
    # long transfers (sequence number wrap)
    for nseg in ([255, 256, 257, 300, 600] if thorough else [256, 257, 300]):
        for direction in ("request", "response"):
            size = nseg * 50 - 30
            kw = dict(c_max=50, s_max=50, c_maxsegs=None, s_maxsegs=None, c_win=rng.choice([1, 4, 8]), s_win=rng.choice([1, 4, 8]))
            if direction == "request":
                cfgs.append(("long-request", Cfg(req_size=size, rsp_size=3, **kw)))
            else:
                cfgs.append(("long-response", Cfg(req_size=3, rsp_size=size, **kw)))
    for label, cfg in cfgs:
        idx += 1
        if not run.mine(idx):
            continue
        if label == "slow-wire-window-1":
            nseg = max(cfg.req_size, cfg.rsp_size) // 40
            lat = rng.choice([0.05, 0.1])
            run.case(("slow", idx, lat, repr(sorted(cfg.describe().items()))), sample={"config_class": label, "segments": nseg, "one_way_latency": lat}, sample_key=("slow",))
            run.count("slow_wire_transfers")
            evaluate(run, label, cfg, Plan(latency=lat, latency_budget=2.2 * lat * (nseg + 10)), single=True)
            continue
        base = evaluate(run, label, cfg, Plan(), single=True)
        F = len(base.lan.frames) - base.lan.frames_before
        run.case(("ff", label, repr(sorted(cfg.describe().items()))), nontrivial=F > 0,
                 sample={"config_class": label, "req_size": cfg.req_size, "rsp_size": cfg.rsp_size, "max_apdu": cfg.c_max,
                         "windows": [cfg.c_win, cfg.s_win], "frames_fault_free": F}, sample_key=("cfg", label))
        if F <= 2 and label.endswith("length") and not thorough and idx % 4:
            continue                       # unsegmented in both directions: C04 covers those
        long = label.startswith("long")
        if long:
            ks = sorted(set([0, 1, 2, 3, F // 2, F - 3, F - 2, F - 1] + [k for k in range(F) if 250 <= (k * 256 // max(F, 1)) % 256 <= 255][:6]
                            + rng.sample(range(F), 6 if thorough else 2)))
        elif F > 40 and not thorough:
            ks = sorted(set(list(range(12)) + list(range(F - 8, F)) + rng.sample(range(F), 10)))
        else:
            ks = list(range(F))
        for plan in single_faults(cfg, F):
            k = next(iter(plan.table))
            if k not in ks:
                continue
            run.case(("single", idx, repr(plan.table)))
            evaluate(run, label, cfg, plan, single=True)
        if not long and F > 2 and (thorough or label == "windows" or idx % 5 == 0):
            # the same single losses on a wire with latency
            lk = ks if (thorough or F <= 16) else sorted(set(rng.sample(ks, 16)))
            for plan in latency_single_faults(cfg, F, rng, frames=lk):
                run.case(("latency", idx, repr(plan.table), plan.describe()["latency"] if not callable(plan.latency) else run.evaluations))
                run.count("latency_single_fault_cases")
                evaluate(run, label, cfg, plan, single=True)
        if not long:
            for j, plan in enumerate(random_plans(cfg, F, rng, 12 if thorough else 3)):
                run.case(("random", idx, j, run.shard[0]))
                run.count("random_plan_cases")
                evaluate(run, label, cfg, plan, single=False)
    run.finish(require=("scenarios", "payload_deliveries_compared", "segments", "single_fault_cases", "latency_single_fault_cases"))


def replay(run):
    import json
    with open(run.replay_path) as f:
        w = json.load(f)["witness"]
    cfg = Cfg(**w["config"])
    table = {}
    if w.get("plan") and w["plan"].get("table"):
        table = {int(k): tuple(v) if isinstance(v, list) else v for k, v in w["plan"]["table"].items()}
    elif w.get("plan") and w["plan"].get("applied"):
        table = {a[0]: tuple(a[1:]) for a in w["plan"]["applied"]}
    evaluate(run, w.get("config_class", "replay"), cfg, Plan(table), single=len(table) <= 1)
    run.finish()


if __name__ == "__main__":
    main_guard(main)
