"""
C15  Property reads and writes over the wire are consistent, typed, all-or-nothing.

A real device carrying one instance of every registered object type, populated
by the schema generator from each property's datatype, is driven by a real
client stack with random sequences of ReadProperty / WriteProperty /
ReadPropertyMultiple requests.  Oracles: model dictionary (write-then-read),
full before/after snapshot for refused writes, error-family table, array
index semantics, RPM == RP differential.
"""

import inspect

from .. import common
from ..common import Run, main_guard

common.bootstrap()

from ..vclock import CLOCK, StepBudgetExceeded
from ..fnet import FaultNet, Plan
from ..stacks import ServiceDevice, SyncClient
from .. import schema as S

import bacpypes.object as OBJ
from bacpypes.object import registered_object_types, get_object_class
from bacpypes.primitivedata import Atomic, Unsigned, Real, CharacterString, Null, Boolean, Enumerated, ObjectIdentifier
from bacpypes.constructeddata import Any, Array, List, ArrayOf, ListOf, Sequence, Choice, AnyAtomic
from bacpypes.basetypes import PropertyIdentifier, PropertyReference, ErrorType
from bacpypes.apdu import (ReadPropertyRequest, ReadPropertyACK, WritePropertyRequest, SimpleAckPDU, ErrorPDU, RejectPDU, AbortPDU, Error,
                           ReadPropertyMultipleRequest, ReadPropertyMultipleACK, ReadAccessSpecification)

RULE = ("one device with an instance of every registered object type whose properties are populated from their datatypes; random "
        "sequences (50 quick / 300 thorough per device, several devices) of ReadProperty, WriteProperty (right-typed and "
        "wrong-typed values, all array index classes 0 / 1..n / n+1 / large, priorities, index on non-arrays, read-only, "
        "absent, unknown properties and objects) and ReadPropertyMultiple (explicit references, all / required / optional, "
        "unknown objects).  A case is one request; after every acknowledged write a read-back, after every refused write a "
        "full snapshot comparison")

CMD_PROPS = ("presentValue", "priorityArray", "relinquishDefault")

SKIP_PROPS = {"localDate", "localTime", "propertyList", "activeCovSubscriptions", "objectList", "protocolServicesSupported",
              "protocolObjectTypesSupported", "objectIdentifier", "objectName", "objectType"}


def prop_norm(dt, v, index=None):
    """normal form of a property value (or of one element / the length when an index is given)"""
    if v is None:
        return None
    if index is not None and issubclass(dt, Array):
        if index == 0:
            return ("int", int(v))
        return S.norm(dt.subtype, v)
    if issubclass(dt, Array):
        return S.norm(dt, v)
    if issubclass(dt, List):
        items = v.value if hasattr(v, "value") and not isinstance(v, list) else v
        return ("list",) + tuple(S.norm(dt.subtype, x) for x in items)
    if issubclass(dt, AnyAtomic):
        return S.norm(AnyAtomic, v) if isinstance(v, Atomic) else ("?", repr(v))
    return S.norm(dt, v)


from bacpypes.local.object import WriteableObjectNameMixIn
from bacpypes.object import AnalogValueObject, BinaryValueObject, MultiStateValueObject, register_object_type


@register_object_type(vendor_id=998)
class RenamableAV(WriteableObjectNameMixIn, AnalogValueObject):
    pass


@register_object_type(vendor_id=998)
class RenamableBV(WriteableObjectNameMixIn, BinaryValueObject):
    pass


@register_object_type(vendor_id=998)
class RenamableMSV(WriteableObjectNameMixIn, MultiStateValueObject):
    pass


from bacpypes.local.object import WriteableObjectIdentifierMixIn
from bacpypes.object import Property as _Property
from ..stacks import PlainServiceApp


@register_object_type(vendor_id=997)
class RenumberableAV(WriteableObjectIdentifierMixIn, AnalogValueObject):
    pass


@register_object_type(vendor_id=997)
class RenumberableBV(WriteableObjectIdentifierMixIn, BinaryValueObject):
    pass


def side_doors(run, rng):
    """what an application does to one object must not show on another: a property added to one object of a class, the extra
    property a service gives its own device object, an object whose identifier may be written.  Two devices in one process,
    objects of one class side by side; everything is judged by what ReadProperty / ReadPropertyMultiple answer"""
    CLOCK.reset()
    lan = FaultNet("lan", Plan())
    lan.frame_cap = 10 ** 9
    first_plain = rng.random() < 0.5
    if first_plain:
        plain = ServiceDevice(lan, 6, app_class=PlainServiceApp)
    dev = ServiceDevice(lan, 5)             # reports changes of value: its device object gets 'activeCovSubscriptions' at start-up
    if not first_plain:
        plain = ServiceDevice(lan, 6, app_class=PlainServiceApp)
    client = SyncClient(lan, 1)
    hist = []

    def fail(key, **kw):
        run.violation(key, dict(kw, history=hist[-8:]))
        return False

    def rp(target, oid, pid):
        req = ReadPropertyRequest(objectIdentifier=oid, propertyIdentifier=pid, destination=target.address)
        ans = client.call(req)
        run.count("reads")
        if isinstance(ans, ReadPropertyACK):
            return ("value", ans)
        if isinstance(ans, ErrorPDU):
            return ("error", str(ans.errorClass), str(ans.errorCode))
        return ("other", type(ans).__name__)

    def rpm_all(target, oid):
        req = ReadPropertyMultipleRequest(destination=target.address, listOfReadAccessSpecs=[
            ReadAccessSpecification(objectIdentifier=oid, listOfPropertyReferences=[PropertyReference(propertyIdentifier="all")])])
        ans = client.call(req)
        run.count("reads")
        if not isinstance(ans, ReadPropertyMultipleACK):
            return None, ((str(ans.errorClass), str(ans.errorCode)) if isinstance(ans, ErrorPDU) else type(ans).__name__)
        out = {}
        for res in ans.listOfReadAccessResults:
            for el in res.listOfResults:
                out[el.propertyIdentifier] = "error" if el.readResult.propertyAccessError is not None else "value"
        return out, None

    # 1. a property added to one object only
    objs = [AnalogValueObject(objectIdentifier=("analogValue", k), objectName="a%d" % k, presentValue=float(k), statusFlags=[0, 0, 0, 0]) for k in (1, 2)]
    late = AnalogValueObject(objectIdentifier=("analogValue", 3), objectName="a3", presentValue=3.0, statusFlags=[0, 0, 0, 0]) if rng.random() < 0.5 else None
    pid = rng.choice(["apduTimeout", "numberOfStates", "vendorIdentifier"])
    objs[0].add_property(_Property(pid, Unsigned, default=77, optional=True, mutable=False))
    if late is None:
        late = AnalogValueObject(objectIdentifier=("analogValue", 3), objectName="a3", presentValue=3.0, statusFlags=[0, 0, 0, 0])
    for o in objs + [late]:
        dev.app.add_object(o)
    CLOCK.settle()
    hist.append(("property %s added to analogValue:1 only" % pid,))
    got = rp(dev, ("analogValue", 1), pid)
    if got[0] != "value":
        return fail("added-property-not-readable", answer=got[1:])
    for k in (2, 3):
        got = rp(dev, ("analogValue", k), pid)
        if got != ("error", "property", "unknownProperty"):
            return fail("property-added-to-one-object-shows-on-another", object=("analogValue", k), property=pid, answer=repr(got[1:]) if got[0] != "value" else "a value")
        props, err = rpm_all(dev, ("analogValue", k))
        if props is None:
            return fail("read-all-refused-although-every-property-can-be-read", object=("analogValue", k), answer=err)
        if pid in props:
            return fail("property-added-to-one-object-shows-on-another", object=("analogValue", k), property=pid, through="ReadPropertyMultiple all")
    # 2. the extra property of the reporting device's own device object
    got = rp(dev, ("device", 5), "activeCovSubscriptions")
    if got[0] != "value":
        return fail("reporting-device-cannot-list-its-subscriptions", answer=got[1:])
    got = rp(plain, ("device", 6), "activeCovSubscriptions")
    if got != ("error", "property", "unknownProperty"):
        return fail("property-added-to-one-object-shows-on-another", object=("device", 6), property="activeCovSubscriptions",
                    answer=repr(got[1:]) if got[0] != "value" else "a value")
    props, err = rpm_all(plain, ("device", 6))
    if props is None:
        return fail("read-all-refused-although-every-property-can-be-read", object=("device", 6), answer=err)
    if "activeCovSubscriptions" in props:
        return fail("property-added-to-one-object-shows-on-another", object=("device", 6), property="activeCovSubscriptions", through="ReadPropertyMultiple all")
    run.count("added_property_sessions")
    # 2a. an array property the application filled with a plain Python list (in the constructor, or by assignment later): over
    #     the wire it is the array with those elements - index 0 its length, index k its k-th element
    texts = ["t%d" % rng.randrange(100) for _ in range(rng.choice([1, 2, 3, 5]))]
    msv = MultiStateValueObject(objectIdentifier=("multiStateValue", 9), objectName="m9", presentValue=1, numberOfStates=len(texts), stateText=list(texts))
    dev.app.add_object(msv)
    CLOCK.settle()
    for phase in ("constructor", "assignment"):
        if phase == "assignment":
            texts = ["u%d" % rng.randrange(100) for _ in range(rng.choice([1, 2, 4]))]
            msv.stateText = list(texts)
        hist.append(("stateText given as a plain list", phase, list(texts)))
        for ix in [0, 1, len(texts), len(texts) + 1]:
            req = ReadPropertyRequest(objectIdentifier=("multiStateValue", 9), propertyIdentifier="stateText", propertyArrayIndex=ix, destination=dev.address)
            ans = client.call(req)
            run.count("reads")
            if ix == 0:
                ok = isinstance(ans, ReadPropertyACK) and ans.propertyValue.cast_out(Unsigned) == len(texts)
            elif ix <= len(texts):
                ok = isinstance(ans, ReadPropertyACK) and str(ans.propertyValue.cast_out(CharacterString)) == texts[ix - 1]
            else:
                ok = isinstance(ans, ErrorPDU) and (str(ans.errorClass), str(ans.errorCode)) == ("property", "invalidArrayIndex")
            if not ok:
                got = (str(ans.errorClass), str(ans.errorCode)) if isinstance(ans, ErrorPDU) else type(ans).__name__
                if isinstance(ans, ReadPropertyACK):
                    try:
                        got = repr(ans.propertyValue.cast_out(CharacterString if ix else Unsigned))
                    except Exception:
                        got = "a value of another type"
                return fail("array-filled-with-a-plain-list-is-indexed-wrongly", given_in=phase, elements=list(texts), index=ix, answer=got)
        run.count("plain_list_array_reads_checked")
    # 2b. an ordinary object's identifier is read-only: whatever identifier is written, the refusal says so
    for new in (("analogValue", 7), (rng.choice(["binaryValue", "device", "multiStateValue"]), rng.randrange(1, 9))):
        hist.append(("write objectIdentifier of an ordinary object", ("analogValue", 2), new))
        req = WritePropertyRequest(objectIdentifier=("analogValue", 2), propertyIdentifier="objectIdentifier", destination=dev.address)
        req.propertyValue = Any()
        req.propertyValue.cast_in(ObjectIdentifier(new))
        ans = client.call(req)
        run.count("writes")
        run.count("writes_refused")
        got = (str(ans.errorClass), str(ans.errorCode)) if isinstance(ans, ErrorPDU) else type(ans).__name__
        if got != ("property", "writeAccessDenied"):
            return fail("write-to-read-only-property-not-refused-as-such", property="objectIdentifier", written=new, answer=got)
        if rp(dev, ("analogValue", 2), "objectIdentifier")[0] != "value":
            return fail("refused-write-changed-the-device", object=("analogValue", 2))

    # 3. objects whose identifier may be written: a number of its own type that nobody has - anything else is refused and
    #    leaves the device as it was
    model = {}
    for cls, inst in ((RenumberableAV, 10), (RenumberableAV, 11), (RenumberableBV, 10)):
        o = cls(objectIdentifier=(cls.objectType, inst), objectName="r-%s-%d" % (cls.objectType, inst))
        dev.app.add_object(o)
        model[(cls.objectType, inst)] = o
    CLOCK.settle()

    def view():
        """identifier each object reports under the identifier the model says it answers to, and the device's object list"""
        v = {}
        for oid in sorted(model):
            got = rp(dev, oid, "objectIdentifier")
            v[oid] = tuple(got[1].propertyValue.cast_out(ObjectIdentifier)) if got[0] == "value" else got
        got = rp(dev, ("device", 5), "objectList")
        v["list"] = sorted(tuple(x) for x in got[1].propertyValue.cast_out(ArrayOf(ObjectIdentifier))[1:]) if got[0] == "value" else got
        return v

    for step in range(rng.choice([4, 8, 12])):
        oid = rng.choice(sorted(model))
        r = rng.random()
        others = [k for k in model if k != oid]
        if r < 0.35:
            new = (oid[0], rng.choice([n for n in range(10, 16) if (oid[0], n) not in model]))
            expect = "ack"
        elif r < 0.55:
            same = [k for k in others if k[0] == oid[0]]
            new = rng.choice(same) if same else ("analogValue", 1)
            expect = ("property", "duplicateObjectId")
        elif r < 0.9:
            other_type = rng.choice([t for t in ("analogValue", "binaryValue", "multiStateValue", "device") if t != oid[0]])
            new = (other_type, rng.choice([n for n in range(20, 30)]))
            expect = ("property", "valueOutOfRange")
        else:
            new = oid
            expect = "ack"
        hist.append(("write objectIdentifier", oid, new))
        before = view()
        req = WritePropertyRequest(objectIdentifier=oid, propertyIdentifier="objectIdentifier", destination=dev.address)
        req.propertyValue = Any()
        req.propertyValue.cast_in(ObjectIdentifier(new))
        ans = client.call(req)
        run.count("writes")
        run.count("renumberings")
        if expect == "ack":
            if not isinstance(ans, SimpleAckPDU):
                return fail("renumbering-to-a-free-number-refused", answer=(str(ans.errorClass), str(ans.errorCode)) if isinstance(ans, ErrorPDU) else type(ans).__name__)
            run.count("writes_acknowledged")
            model[new] = model.pop(oid)
            after = view()
            if after.get(new) != new:
                return fail("read-back-differs-from-written-value", object=new, read=repr(after.get(new)))
            if new != oid and rp(dev, oid, "objectIdentifier") != ("error", "object", "unknownObject"):
                return fail("object-still-answers-to-the-identifier-it-gave-up", old=oid)
            want = sorted([x for x in before["list"] if x != oid] + [new])
            if after["list"] != want:
                return fail("object-list-does-not-follow-the-renumbering", listed=repr(after["list"]), expected=repr(want))
        else:
            run.count("writes_refused")
            if not (isinstance(ans, ErrorPDU) and (str(ans.errorClass), str(ans.errorCode)) == expect):
                return fail("renumbering-not-refused-as-specified", expected=expect,
                            answer=(str(ans.errorClass), str(ans.errorCode)) if isinstance(ans, ErrorPDU) else type(ans).__name__)
            after = view()
            if after != before:
                return fail("refused-write-changed-the-device", changed=[repr((k, before[k], after[k])) for k in before if before[k] != after.get(k)][:3])
    run.count("renumbering_sessions")
    return True


class World:
    def __init__(self, run, rng, full=False):
        """full: every optional property present and arrays not empty where the generator can help it (the systematic pass)"""
        self.run = run
        self.rng = rng
        CLOCK.reset()
        self.lan = FaultNet("lan", Plan())
        self.lan.frame_cap = 10 ** 9      # one long session of many requests: the per-transaction frame budget of fnet does not apply
        self.dev = ServiceDevice(self.lan, 5, maxApduLengthAccepted=1476)
        self.client = SyncClient(self.lan, 1, maxApduLengthAccepted=1476)
        self.objs = {}
        self.grown = {}             # (oid, pid) -> number of leading elements that were written by somebody
        self.mutable = {}
        built = 0
        for (otype, vendor), cls in sorted(registered_object_types.items(), key=lambda kv: str(kv[0])):
            if vendor != 0 or otype == "device" or not isinstance(otype, str):
                continue
            try:
                obj = cls(objectIdentifier=(otype, 1), objectName="o-" + otype)
            except Exception as err:
                run.count("cannot_build_object")
                run.seen("cannot_build_object", "%s:%s" % (otype, type(err).__name__))
                continue
            for pid, prop in cls._properties.items():
                if pid in SKIP_PROPS or obj._values.get(pid) is not None:
                    continue
                if rng.random() < 0.25 and not full:
                    continue                 # leave some optional properties absent
                try:
                    val = S.gen_element(rng, prop.datatype, 1)
                    for _ in range(4):
                        if not (full and issubclass(prop.datatype, Array) and hasattr(val, "value") and len(val.value) <= 1):
                            break
                        val = S.gen_element(rng, prop.datatype, 1)
                    if S.is_listof(prop.datatype):
                        pass                 # lists are kept as plain lists
                    obj._values[pid] = val
                except Exception:
                    run.count("cannot_populate_property")
            try:
                self.dev.app.add_object(obj)
            except Exception:
                continue
            self.objs[(otype, 1)] = obj
            built += 1
        # commandable objects (instance 2): presentValue is commanded through the priority array
        self.cmd = {}
        from .c17 import cmd_classes, registered
        for cls in cmd_classes():
            sub = registered(cls)
            otype = sub.objectType
            try:
                obj = sub(objectIdentifier=(otype, 2), objectName="c-" + otype)
            except Exception as err:
                run.seen("cannot_build_object", "cmd:%s:%s" % (otype, type(err).__name__))
                continue
            for pid, prop in sub._properties.items():
                if pid in SKIP_PROPS or pid in CMD_PROPS or pid in ("minimumOnTime", "minimumOffTime") or obj._values.get(pid) is not None:
                    continue
                if rng.random() < 0.5:
                    continue
                try:
                    obj._values[pid] = S.gen_element(rng, prop.datatype, 1)
                except Exception:
                    run.count("cannot_populate_property")
            try:
                self.dev.app.add_object(obj)
            except Exception:
                continue
            self.objs[(otype, 2)] = obj
            dt = sub._properties["presentValue"].datatype
            self.cmd[(otype, 2)] = {"dt": dt, "slots": [None] * 17, "default": S.norm(dt, obj._values.get("relinquishDefault")),
                                    "choice": [b for b in sub.__mro__ if getattr(b, "__name__", "") == "_Commando"][0]._pv_choice}
            built += 1
        # objects whose name can be written (instance 3): the device keeps its names unique
        self.renamable = {}
        for cls, nm in ((RenamableAV, "alpha"), (RenamableBV, "beta"), (RenamableMSV, "gamma"), (RenamableAV, "delta")):
            inst = 3 + len(self.renamable)
            try:
                obj = cls(objectIdentifier=(cls.objectType, inst), objectName=nm)
                self.dev.app.add_object(obj)
            except Exception as err:
                run.seen("cannot_build_object", "renamable:%s" % type(err).__name__)
                continue
            self.objs[(cls.objectType, inst)] = obj
            self.renamable[(cls.objectType, inst)] = nm
        run.counters["commandable_objects_on_device"] = max(run.counters.get("commandable_objects_on_device", 0), len(self.cmd))
        run.counters["object_types_on_device"] = max(run.counters.get("object_types_on_device", 0), built)
        CLOCK.settle()
        # the device declares a random half of the properties writable (class-level Property objects; this process only)
        for oid, obj in self.objs.items():
            for pid, prop in obj._properties.items():
                if pid not in SKIP_PROPS and not (oid in self.cmd and pid in CMD_PROPS):
                    prop.mutable = rng.random() < 0.5

    def snapshot(self):
        snap = {}
        for oid, obj in list(self.objs.items()) + [(("device", 5), self.dev.device)]:
            for pid, prop in obj._properties.items():
                if pid in ("localDate", "localTime"):
                    continue
                try:
                    snap[(oid, pid)] = prop_norm(prop.datatype, obj._values.get(pid))
                except Exception:
                    snap[(oid, pid)] = ("unnormalisable", repr(obj._values.get(pid))[:80])
        return snap

    # ------------------------------------------------------------------
    def expected_read(self, oid, pid, index):
        """what ReadProperty must answer according to the device's state: ('value', norm) or ('error', class, code)"""
        obj = self.objs.get(oid) or (self.dev.device if oid == ("device", 5) else None)
        if obj is None:
            return ("error", "object", "unknownObject")
        prop = obj._properties.get(pid)
        if prop is None or obj._values.get(pid) is None:
            if prop is not None and index is not None and not issubclass(prop.datatype, Array):
                return ("error-any", [("property", "unknownProperty"), ("property", "propertyIsNotAnArray")])
            return ("error", "property", "unknownProperty")
        dt = prop.datatype
        val = obj._values[pid]
        if index is not None:
            if not issubclass(dt, Array):
                return ("error", "property", "propertyIsNotAnArray")
            n = len(val.value) - 1 if isinstance(val, Array) else len(val)
            if index == 0:
                return ("value", ("int", n))
            if 1 <= index <= n:
                item = val.value[index] if isinstance(val, Array) else val[index - 1]
                return ("value", S.norm(dt.subtype, item))
            return ("error", "property", "invalidArrayIndex")
        return ("value", prop_norm(dt, val))

    def wire_read(self, oid, pid, index):
        """what ReadProperty answers over the wire, normalised like expected_read (the RPM == RP differential)"""
        obj = self.objs.get(oid) or (self.dev.device if oid == ("device", 5) else None)
        req = ReadPropertyRequest(objectIdentifier=oid, propertyIdentifier=pid, destination=self.dev.address)
        if index is not None:
            req.propertyArrayIndex = index
        try:
            ans = self.client.call(req)
        except Exception:
            return ("unsendable",)
        self.run.count("differential_reads")
        if isinstance(ans, ReadPropertyACK):
            try:
                return ("value", self.decode_read(ans, oid, pid, index))
            except Exception as err:
                return ("undecodable", type(err).__name__)
        if isinstance(ans, ErrorPDU):
            return ("error", ans.errorClass, ans.errorCode)
        return ("other", type(ans).__name__)

    def decode_read(self, ack, oid, pid, index):
        obj = self.objs.get(oid) or self.dev.device
        dt = obj._properties[pid].datatype
        if index is not None and issubclass(dt, Array):
            v = ack.propertyValue.cast_out(Unsigned if index == 0 else dt.subtype)
            return ("int", int(v)) if index == 0 else S.norm(dt.subtype, v)
        v = ack.propertyValue.cast_out(dt)
        return prop_norm(dt, v)

    def read(self, oid, pid, index, wit):
        req = ReadPropertyRequest(objectIdentifier=oid, propertyIdentifier=pid, destination=self.dev.address)
        if index is not None:
            req.propertyArrayIndex = index
        try:
            ans = self.client.call(req)
        except Exception as err:
            self.run.count("requests_not_encodable")
            return None
        self.run.count("reads")
        if oid == ("device", 5):
            # the device object computes many of its properties: only "answered with an ack or an error" is judged here,
            # the values are covered by the ReadPropertyMultiple == ReadProperty differential
            if not isinstance(ans, (ReadPropertyACK, ErrorPDU)):
                self.run.violation("read-not-answered-with-ack-or-error/" + type(ans).__name__, dict(wit, object=oid, property=pid, index=index))
                return False
            return True
        want = self.expected_read(oid, pid, index)
        return self.judge_read(ans, want, oid, pid, index, wit)

    def judge_read(self, ans, want, oid, pid, index, wit):
        w = dict(wit, object=oid, property=pid, index=index)
        if isinstance(ans, ReadPropertyACK):
            if want[0] != "value":
                self.run.violation("read-answered-where-error-expected/" + (want[2] if want[0] == "error" else "error"), dict(w, expected=repr(want)[:200]))
                return False
            try:
                got = self.decode_read(ans, oid, pid, index)
            except Exception as err:
                self.run.violation("read-answer-not-decodable-as-property-datatype/" + type(err).__name__, dict(w, error=repr(err)[:120]))
                return False
            keep = self.grown.get((oid, pid))
            if keep is not None and got != want[1]:
                if index is None and isinstance(got, tuple) and isinstance(want[1], tuple) and len(got) == len(want[1]) and got[:1 + keep] == want[1][:1 + keep]:
                    self.run.count("device_chosen_elements_not_compared")
                    return True
                if index is not None and index > keep:
                    self.run.count("device_chosen_elements_not_compared")
                    return True
            if got != want[1]:
                key = "array-index-0-is-not-the-length" if index == 0 else "array-element-differs" if index else "read-value-differs-from-device-state"
                self.run.violation(key, dict(w, got=repr(got)[:300], expected=repr(want[1])[:300]))
                return False
            return True
        if isinstance(ans, ErrorPDU):
            ec = (ans.errorClass, ans.errorCode) if hasattr(ans, "errorClass") else (None, None)
            if want[0] == "value":
                sw = [r for r in CLOCK.swallowed.records if r["exc"]][-1:]
                self.run.violation("readable-property-answered-with-error/%s-%s" % ec + ("/%s@%s" % (sw[0]["exc"], (sw[0]["origin"] or "?").split(":")[1]) if sw else ""),
                                   dict(w, swallowed=sw))
                return False
            ok = (want[0] == "error" and ec == (want[1], want[2])) or (want[0] == "error-any" and ec in want[1])
            if not ok:
                self.run.violation("wrong-error-for-read/expected-%s" % (want[2] if want[0] == "error" else "one-of"), dict(w, got=ec, expected=repr(want)))
                return False
            return True
        self.run.violation("read-not-answered-with-ack-or-error/" + type(ans).__name__, w)
        return False

    # ------------------------------------------------------------------
    def write(self, oid, pid, index, value_dt, value, priority, wit):
        """value_dt: the datatype the value was generated from (may be the wrong one)"""
        obj = self.objs.get(oid)
        prop = obj._properties.get(pid) if obj is not None else None
        cmd = self.cmd.get(oid) if pid == "presentValue" else None
        req = WritePropertyRequest(objectIdentifier=oid, propertyIdentifier=pid, destination=self.dev.address)
        if index is not None:
            req.propertyArrayIndex = index
        if priority is not None:
            req.priority = priority
        req.propertyValue = Any()
        try:
            if inspect.isclass(value_dt) and issubclass(value_dt, Unsigned) and isinstance(value, int) and value >= (1 << 32):
                # an unsigned of more than four octets, as another implementation may send it: the tag is built by hand
                from bacpypes.primitivedata import Tag
                octs = value.to_bytes((value.bit_length() + 7) // 8, "big")
                req.propertyValue.tagList.append(Tag(Tag.applicationTagClass, Tag.unsignedAppTag, len(octs), bytearray(octs)))
                self.run.count("unsigned_values_longer_than_four_octets_written")
            elif inspect.isclass(value_dt) and issubclass(value_dt, Atomic) and not isinstance(value, Atomic):
                req.propertyValue.cast_in(value_dt(value))
            elif S.is_listof(value_dt) and isinstance(value, list):
                req.propertyValue.cast_in(value_dt(value))
            else:
                req.propertyValue.cast_in(value)
        except Exception:
            self.run.count("requests_not_encodable")
            return None
        tags = req.propertyValue.tagList.tagList
        if len(tags) == 1 and tags[0].tagClass == 0 and tags[0].tagNumber == 0:
            self.run.count("null_valued_writes")
        before = self.snapshot()
        try:
            ans = self.client.call(req)
        except Exception:
            self.run.count("requests_not_encodable")
            return None
        self.run.count("writes")
        w = dict(wit, object=oid, property=pid, index=index, priority=priority, value=repr(value)[:120],
                 value_datatype=getattr(value_dt, "__name__", str(value_dt)))
        after = self.snapshot()
        # which refusals are applicable (model of the statement)
        causes = []
        if obj is None:
            causes.append(("object", "unknownObject"))
        else:
            if prop is None or obj._values.get(pid) is None and before.get((oid, pid)) is None:
                causes.append(("property", "unknownProperty"))
            if prop is not None:
                dt = prop.datatype
                if not prop.mutable:
                    causes.append(("property", "writeAccessDenied"))
                if index is not None and not issubclass(dt, Array):
                    causes.append(("property", "propertyIsNotAnArray"))
                if index is not None and issubclass(dt, Array):
                    cur = obj._values.get(pid) if before.get((oid, pid)) is not None else None
                    n = (before[(oid, pid)] and len(before[(oid, pid)]) - 1) or 0
                    if index != 0 and not (1 <= index <= n):
                        causes.append(("property", "invalidArrayIndex"))
                    if index == 0 and getattr(dt, "fixed_length", None) is not None:
                        causes.append(("property", "writeAccessDenied"))
                        causes.append(("property", "valueOutOfRange"))
                right = (value_dt is dt and index is None) or (index not in (None, 0) and issubclass(dt, Array) and value_dt is dt.subtype) or \
                        (index == 0 and issubclass(dt, Array) and value_dt is Unsigned)
                if cmd is not None and value_dt is Null and index is None:
                    right = True              # relinquish
                if right and inspect.isclass(value_dt) and issubclass(value_dt, Enumerated) and isinstance(value, int) \
                        and value not in value_dt.enumerations.values():
                    right = False             # a number the enumeration does not define: refused (out of range) or stored as it is
                    self.run.count("undefined_enumeration_numbers_written")
                if not right:
                    causes.append("datatype")
        if isinstance(ans, SimpleAckPDU):
            self.run.count("writes_acknowledged")
            if causes and causes != ["datatype"]:
                self.run.violation("write-acknowledged-although-it-must-be-refused/" + str(causes[0][1] if causes[0] != "datatype" else "datatype"), dict(w, causes=repr(causes)))
                return False
            if causes == ["datatype"] and cmd is not None:
                self.run.violation("wrong-typed-command-acknowledged", dict(w, causes=repr(causes)))
                return False
            if causes == ["datatype"]:
                # a value of another datatype was accepted: it must at least not corrupt the property for reads
                self.run.count("wrong_typed_writes_accepted")
                r = self.read(oid, pid, index, dict(wit, after_wrong_typed_write=True))
                return r
            if cmd is not None:
                return self.commanded(oid, cmd, value_dt, value, priority, before, after, w)
            if index == 0 and issubclass(prop.datatype, Array) and not issubclass(prop.datatype.subtype, Atomic):
                grown = self.grown_array(oid, pid, obj, prop, int(value), before, w)
                if grown is not None:
                    return grown
            if index is None:
                self.grown.pop((oid, pid), None)
            # exactly the target changed
            changed = [k for k in after if after[k] != before.get(k)]
            others = [k for k in changed if k != (oid, pid)]
            if others:
                self.run.violation("write-changed-another-property", dict(w, others=[repr(k) for k in others[:4]]))
                return False
            # read back
            req2 = ReadPropertyRequest(objectIdentifier=oid, propertyIdentifier=pid, destination=self.dev.address)
            if index is not None:
                req2.propertyArrayIndex = index
            ans2 = self.client.call(req2)
            self.run.count("read_backs")
            if not isinstance(ans2, ReadPropertyACK):
                sw = [r for r in CLOCK.swallowed.records if r["exc"]][-1:]
                self.run.violation("read-after-acknowledged-write-fails" + ("/%s@%s" % (sw[0]["exc"], (sw[0]["origin"] or "?").split(":")[1]) if sw else ""),
                                   dict(w, answer=type(ans2).__name__, swallowed=sw))
                return False
            try:
                got = self.decode_read(ans2, oid, pid, index)
            except Exception as err:
                self.run.violation("read-back-not-decodable/" + type(err).__name__, dict(w, error=repr(err)[:100]))
                return False
            dt = prop.datatype
            want = ("int", int(value)) if (index == 0 and issubclass(dt, Array)) else \
                S.norm(dt.subtype, value) if (index is not None and issubclass(dt, Array)) else prop_norm(dt, value)
            if got != want:
                self.run.violation("read-back-differs-from-written-value", dict(w, got=repr(got)[:300], written=repr(want)[:300]))
                return False
            return True
        # refused
        self.run.count("writes_refused")
        if after != before:
            changed = [repr(k) for k in after if after[k] != before.get(k)]
            self.run.violation("refused-write-changed-the-device", dict(w, changed=changed[:4], answer=type(ans).__name__))
            return False
        if not causes:
            sw = [r for r in CLOCK.swallowed.records if r["exc"]][-1:]
            ec = (getattr(ans, "errorClass", None), getattr(ans, "errorCode", None)) if isinstance(ans, ErrorPDU) else type(ans).__name__
            self.run.violation("valid-write-refused/%s" % (ec,) + ("/%s@%s" % (sw[0]["exc"], (sw[0]["origin"] or "?").split(":")[1]) if sw else ""),
                               dict(w, swallowed=sw))
            return False
        if isinstance(ans, ErrorPDU):
            ec = (ans.errorClass, ans.errorCode)
            allowed = [c for c in causes if c != "datatype"]
            if "datatype" in causes:
                allowed += [("property", "invalidDataType"), ("property", "valueOutOfRange")]
            if ec not in allowed:
                sw = [r for r in CLOCK.swallowed.records if r["exc"]][-1:]
                self.run.violation("refusal-with-non-matching-error/%s-%s" % ec + ("/%s@%s" % (sw[0]["exc"], (sw[0]["origin"] or "?").split(":")[1]) if sw else ""),
                                   dict(w, applicable=repr(causes), swallowed=sw))
                return False
        elif isinstance(ans, RejectPDU):
            if "datatype" not in causes:
                self.run.violation("refusal-with-reject-for-a-non-datatype-cause", dict(w, applicable=repr(causes), reason=ans.apduAbortRejectReason))
                return False
        else:
            self.run.violation("write-not-answered-with-ack-error-or-reject/" + type(ans).__name__, w)
            return False
        return True

    def grown_array(self, oid, pid, obj, prop, new_n, before, w):
        """an array of constructed elements made longer through index 0: the new elements must be readable"""
        old = before.get((oid, pid))
        old_n = len(old) - 1 if old else 0
        if new_n <= old_n:
            return None
        self.run.count("constructed_arrays_grown")
        req = ReadPropertyRequest(objectIdentifier=oid, propertyIdentifier=pid, destination=self.dev.address)
        req.propertyArrayIndex = new_n
        ans = self.client.call(req)
        if isinstance(ans, ReadPropertyACK):
            # the device chose the content of the new elements (nobody wrote them): what it keeps in memory for them and what
            # it reports need not be the same spelling (NameValue() has no name in memory and an empty one on the wire), so
            # they are not compared with the memory image until they are written
            self.grown[(oid, pid)] = min(old_n, self.grown.get((oid, pid), old_n))
            return None
        if (isinstance(ans, ErrorPDU) and (ans.errorClass, ans.errorCode) == ("device", "operationalProblem")) or isinstance(ans, RejectPDU):
            # (an empty sequence raises MissingRequiredParameter, which the application answers with a reject)
            sw = [r for r in CLOCK.swallowed.records if r["exc"]][-1:]
            self.run.violation("array-of-constructed-elements-grown-through-index-0-gets-elements-that-cannot-be-encoded",
                               dict(w, subtype=prop.datatype.subtype.__name__, old_length=old_n, new_length=new_n, swallowed=sw))
            # put the array back (harness reset) so that the session can go on with a readable device
            obj._values[pid].fix_length(old_n)
            return True
        self.run.violation("new-array-element-not-readable/" + type(ans).__name__, dict(w, new_length=new_n))
        return False

    def rename(self, oid, new_name, wit):
        """WriteProperty of objectName on an object that allows it: refused with duplicate-name exactly when another object of
        the device carries that name now; otherwise acknowledged, read back, and the old name is free again"""
        taken = {str(o._values.get("objectName")): k for k, o in self.objs.items() if k != oid}
        taken[str(self.dev.device.objectName)] = ("device", 5)
        req = WritePropertyRequest(objectIdentifier=oid, propertyIdentifier="objectName", destination=self.dev.address)
        req.propertyValue = Any()
        req.propertyValue.cast_in(CharacterString(new_name))
        before = self.snapshot()
        ans = self.client.call(req)
        self.run.count("writes")
        self.run.count("renames")
        w = dict(wit, object=oid, new_name=new_name, names_in_use=sorted(self.renamable.values()))
        after = self.snapshot()
        if new_name in taken:
            self.run.count("writes_refused")
            if not (isinstance(ans, ErrorPDU) and (ans.errorClass, ans.errorCode) == ("property", "duplicateName")):
                self.run.violation("duplicate-object-name-not-refused-as-such", dict(w, answer=type(ans).__name__, carried_by=taken[new_name]))
                return False
            if after != before:
                self.run.violation("refused-write-changed-the-device", dict(w, answer=type(ans).__name__))
                return False
            return True
        if not isinstance(ans, SimpleAckPDU):
            ec = (getattr(ans, "errorClass", None), getattr(ans, "errorCode", None)) if isinstance(ans, ErrorPDU) else type(ans).__name__
            self.run.violation("rename-to-a-free-name-refused/%s" % (ec,), w)
            return False
        self.run.count("writes_acknowledged")
        self.renamable[oid] = new_name
        others = [k for k in after if after[k] != before.get(k) and k != (oid, "objectName")]
        if others:
            self.run.violation("write-changed-another-property", dict(w, others=[repr(k) for k in others[:4]]))
            return False
        req2 = ReadPropertyRequest(objectIdentifier=oid, propertyIdentifier="objectName", destination=self.dev.address)
        ans2 = self.client.call(req2)
        self.run.count("read_backs")
        if not isinstance(ans2, ReadPropertyACK) or str(ans2.propertyValue.cast_out(CharacterString)) != new_name:
            self.run.violation("read-back-differs-from-written-value", dict(w, answer=type(ans2).__name__))
            return False
        return True

    def commanded(self, oid, cmd, value_dt, value, priority, before, after, w):
        """an acknowledged command / relinquish of a commandable present value: the reference priority array decides what is read"""
        self.run.count("commands_acknowledged")
        dt = cmd["dt"]
        slot = priority or 16
        cmd["slots"][slot] = None if value_dt is Null else S.norm(dt, value)
        active = [x for x in cmd["slots"][1:] if x is not None]
        want_pv = active[0] if active else cmd["default"]
        others = [k for k in after if after[k] != before.get(k) and k not in ((oid, "presentValue"), (oid, "priorityArray"))]
        if others:
            self.run.violation("write-changed-another-property", dict(w, others=[repr(k) for k in others[:4]]))
            return False
        for (pid, index) in (("presentValue", None), ("priorityArray", slot), ("priorityArray", None)):
            req = ReadPropertyRequest(objectIdentifier=oid, propertyIdentifier=pid, destination=self.dev.address)
            if index is not None:
                req.propertyArrayIndex = index
            ans = self.client.call(req)
            self.run.count("read_backs")
            if not isinstance(ans, ReadPropertyACK):
                sw = [r for r in CLOCK.swallowed.records if r["exc"]][-1:]
                self.run.violation("read-after-acknowledged-command-fails/" + pid + ("/%s@%s" % (sw[0]["exc"], (sw[0]["origin"] or "?").split(":")[1]) if sw else ""),
                                   dict(w, answer=type(ans).__name__, read=(pid, index), swallowed=sw))
                return False
            try:
                got = self.decode_read(ans, oid, pid, index)
            except Exception as err:
                self.run.violation("read-back-not-decodable/" + type(err).__name__, dict(w, read=(pid, index), error=repr(err)[:100]))
                return False
            if pid == "presentValue":
                if got != want_pv:
                    self.run.violation("commanded-present-value-is-not-the-highest-active-priority", dict(w, got=repr(got), expected=repr(want_pv),
                                                                                                       slots=repr(cmd["slots"][1:])))
                    return False
            else:
                slots = [got] if index is not None else list(got[1:])
                wants = [cmd["slots"][slot]] if index is not None else cmd["slots"][1:]
                if len(slots) != len(wants):
                    self.run.violation("priority-array-has-not-16-slots", dict(w, got=repr(got)[:300]))
                    return False
                for g, x in zip(slots, wants):
                    exp = ("choice", "PriorityValue", ("null", ("null",))) if x is None else ("choice", "PriorityValue", (cmd["choice"], x))
                    if g != exp and not (x is not None and g[:2] == exp[:2] and len(g) == 3 and g[2][1][1:] == x[1:]):
                        self.run.violation("priority-array-slot-differs-from-commands", dict(w, read=(pid, index), got=repr(g)[:200], expected=repr(exp)[:200]))
                        return False
        self.run.count("commands_checked")
        return True

    # ------------------------------------------------------------------
    def rpm(self, specs, wit):
        """specs: list of (oid, [(pid, index)])"""
        req = ReadPropertyMultipleRequest(destination=self.dev.address, listOfReadAccessSpecs=[
            ReadAccessSpecification(objectIdentifier=oid, listOfPropertyReferences=[
                PropertyReference(propertyIdentifier=pid, **({"propertyArrayIndex": ix} if ix is not None else {})) for pid, ix in refs])
            for oid, refs in specs])
        try:
            ans = self.client.call(req, horizon=60.0)
        except Exception:
            self.run.count("requests_not_encodable")
            return None
        self.run.count("rpm_requests")
        w = dict(wit, specs=repr(specs)[:300])
        if not isinstance(ans, ReadPropertyMultipleACK):
            if isinstance(ans, AbortPDU):
                self.run.count("rpm_aborted_too_long")
                return True
            sw = [r for r in CLOCK.swallowed.records if r["exc"]][-1:]
            self.run.violation("rpm-not-answered-with-ack/" + type(ans).__name__ + ("/%s@%s" % (sw[0]["exc"], (sw[0]["origin"] or "?").split(":")[1]) if sw else ""),
                               dict(w, swallowed=sw, reason=getattr(ans, "apduAbortRejectReason", None), specs_full=repr(specs),
                                    frames=[f["octets"].hex() for f in self.lan.frames[-4:]] if hasattr(self.lan, "frames") else None))
            return False
        if len(ans.listOfReadAccessResults) != len(specs):
            self.run.violation("rpm-result-count-differs", w)
            return False
        for (oid, refs), res in zip(specs, ans.listOfReadAccessResults):
            if tuple(res.objectIdentifier) != tuple(oid):
                self.run.violation("rpm-result-for-another-object", dict(w, got=res.objectIdentifier))
                return False
            obj = self.objs.get(oid) or (self.dev.device if oid == ("device", 5) else None)
            # expand selectors the way the statement says: all / required / optional
            expect = []
            for pid, ix in refs:
                if pid in ("all", "required", "optional"):
                    if obj is None:
                        expect.append((pid, ix, ("error", "object", "unknownObject")))
                        continue
                    for p2, prop in obj._properties.items():
                        if p2 == "propertyList":
                            continue
                        if pid == "required" and prop.optional:
                            continue
                        if pid == "optional" and not prop.optional:
                            continue
                        e = self.wire_read(oid, p2, ix)
                        if e[0] == "error" and e[2] == "unknownProperty":
                            continue            # absent properties are left out of all/required/optional
                        expect.append((p2, ix, e))
                else:
                    expect.append((pid, ix, self.wire_read(oid, pid, ix) if obj is not None else ("error", "object", "unknownObject")))
            got = list(res.listOfResults)
            if [g.propertyIdentifier for g in got] != [e[0] for e in expect]:
                missing = [e[0] for e in expect if e[0] not in [g.propertyIdentifier for g in got]]
                extra = [g.propertyIdentifier for g in got if g.propertyIdentifier not in [e[0] for e in expect]]
                self.run.violation("rpm-selector-expansion-differs" if any(p in ("all", "required", "optional") for p, _ in refs) else "rpm-result-elements-differ",
                                   dict(w, object=oid, missing=missing[:5], extra=extra[:5]))
                return False
            for g, (pid, ix, e) in zip(got, expect):
                self.run.count("rpm_elements_compared")
                if pid in ("localDate", "localTime"):
                    continue
                rr = g.readResult
                if rr.propertyAccessError is not None:
                    ec = (rr.propertyAccessError.errorClass, rr.propertyAccessError.errorCode)
                    ok = (e[0] == "error" and ec == (e[1], e[2])) or e[0] in ("undecodable", "other", "unsendable")
                    if not ok:
                        self.run.violation("rpm-element-error-differs-from-read-property", dict(w, object=oid, property=pid, index=ix, got=ec, read_property=repr(e)[:200]))
                        return False
                else:
                    if e[0] in ("other", "unsendable", "undecodable"):
                        self.run.count("differential_reads_without_comparable_answer")
                        continue            # the single read was aborted (too long for one APDU ...): nothing to compare with
                    if e[0] != "value":
                        self.run.violation("rpm-element-value-where-read-property-gives-error", dict(w, object=oid, property=pid, index=ix, read_property=repr(e)))
                        return False
                    dt = obj._properties[pid].datatype
                    try:
                        if ix is not None and issubclass(dt, Array):
                            v = rr.propertyValue.cast_out(Unsigned if ix == 0 else dt.subtype)
                            gv = ("int", int(v)) if ix == 0 else S.norm(dt.subtype, v)
                        else:
                            gv = prop_norm(dt, rr.propertyValue.cast_out(dt))
                    except Exception as err:
                        self.run.violation("rpm-element-not-decodable/" + type(err).__name__, dict(w, object=oid, property=pid))
                        return False
                    if gv != e[1]:
                        self.run.violation("rpm-element-value-differs-from-read-property", dict(w, object=oid, property=pid, index=ix, got=repr(gv)[:200], expected=repr(e[1])[:200]))
                        return False
        return True


def enum_numbers(klass):
    return [v for v in klass.enumerations.values()]


def session(run, rng, nops, systematic=False):
    w = World(run, rng, full=systematic)
    oids = sorted(w.objs)
    all_pids = sorted(PropertyIdentifier.enumerations)
    if systematic:
        # every present property of every object once: whole, and for arrays index 0, 1, n, n+1
        for oid in oids:
            obj = w.objs[oid]
            for pid, prop in sorted(obj._properties.items()):
                if pid in ("localDate", "localTime") or obj._values.get(pid) is None:
                    continue
                run.case(("sys", oid, pid), sample=None)
                if w.read(oid, pid, None, {"systematic": True}) is False:
                    return
                if issubclass(prop.datatype, Array):
                    n = len(obj._values[pid].value) - 1
                    for ix in sorted({0, 1, n, n + 1}):
                        run.case(("sys", oid, pid, ix), sample=None)
                        if w.read(oid, pid, ix, {"systematic": True}) is False:
                            return
        # every array property of every object through ReadPropertyMultiple, by index (0, 1, n), against ReadProperty
        for oid in oids:
            obj = w.objs[oid]
            refs = []
            for pid, prop in sorted(obj._properties.items()):
                if obj._values.get(pid) is None or not issubclass(prop.datatype, Array) or pid in ("localDate", "localTime"):
                    continue
                try:
                    n = len(obj._values[pid].value) - 1
                except Exception:
                    continue
                refs += [(pid, ix) for ix in sorted({0, 1, n}) if ix <= n or ix == 1]
            for k in range(0, len(refs), 6):
                run.case(("sys-rpm", oid, k), sample=None)
                if w.rpm([(oid, refs[k:k + 6])], {"systematic": True}) is False:
                    return
        # every commandable object: command, a refused command into a free slot (undefined enumeration number or a value of
        # another datatype), an index on the present value, relinquish; each step judged like any other write
        for oid in sorted(w.cmd):
            dt = w.cmd[oid]["dt"]
            try:
                good = [S.gen_element(rng, dt, 1) for _ in range(2)]
            except Exception:
                continue
            if issubclass(dt, Enumerated):
                bad = (dt, max(enum_numbers(dt)) + rng.choice([1, 5]))
            else:
                other = CharacterString if not issubclass(dt, CharacterString) else Real
                bad = (other, S.gen_element(rng, other, 1))
            steps = [(None, dt, good[0], 8), (None, bad[0], bad[1], 10), (None, Null, (), 8), (3, dt, good[1], None),
                     (None, dt, good[1], None), (None, bad[0], bad[1], 12), (None, Null, (), None)]
            for index, vdt, val, prio in steps:
                run.case(("sys-cmd", oid, index, vdt.__name__, prio), sample=None)
                if w.write(oid, "presentValue", index, vdt, val, prio, {"systematic": True}) is False:
                    return
        run.count("systematic_sweeps")
    for k in range(nops):
        wit = {"op": k}
        oid = rng.choice(oids) if rng.random() < 0.93 else rng.choice([("analogValue", 77), ("device", 5), ("file", 9)])
        obj = w.objs.get(oid) or (w.dev.device if oid == ("device", 5) else None)
        if oid in w.cmd and rng.random() < 0.6:
            pid = rng.choice(CMD_PROPS + ("presentValue", "presentValue"))
        elif obj is not None and rng.random() < 0.9:
            pids = [p for p in obj._properties if p not in ("localDate", "localTime")]
            present = [p for p in pids if obj._values.get(p) is not None]
            pid = rng.choice(present) if present and rng.random() < 0.75 else rng.choice(pids)
        else:
            pid = rng.choice(all_pids)
        prop = obj._properties.get(pid) if obj is not None else None
        dt = prop.datatype if prop is not None else None
        # index classes
        index = None
        if rng.random() < 0.35:
            n = 0
            if dt is not None and issubclass(dt, Array) and obj._values.get(pid) is not None:
                n = len(obj._values[pid].value) - 1
            index = rng.choice([0, 1, max(1, n), n + 1, 200, rng.randrange(0, n + 2)])
        r = rng.random()
        run.case(("op", run.shard[0], run.evaluations), sample=None)
        if w.renamable and rng.random() < 0.06:
            target = rng.choice(sorted(w.renamable))
            pool = ["alpha", "beta", "gamma", "delta", "omega", "epsilon"] + [str(o._values.get("objectName")) for o in list(w.objs.values())[:3]]
            ok = w.rename(target, rng.choice(pool), wit)
            if ok is False:
                return
            continue
        if r < 0.40:
            ok = w.read(oid, pid, index, wit)
        elif r < 0.85:
            if pid in SKIP_PROPS or oid == ("device", 5):
                ok = w.read(oid, pid, index, wit)
            else:
                # value: right-typed (mostly) or wrong-typed
                target = dt
                if dt is not None and index is not None and issubclass(dt, Array):
                    target = Unsigned if index == 0 else dt.subtype
                if target is None or rng.random() < 0.2:
                    target = rng.choice([Real, CharacterString, Unsigned, Boolean, ObjectIdentifier, Null])
                if oid in w.cmd and pid == "presentValue" and rng.random() < 0.3:
                    target = Null
                try:
                    if target is Unsigned and index == 0:
                        val = rng.choice([0, 1, 2, 5])
                    elif target is Null:
                        val = ()
                    elif inspect.isclass(target) and issubclass(target, Unsigned) and getattr(target, "_high_limit", None) is None and rng.random() < 0.1:
                        val = rng.choice([1 << 32, (1 << 32) + 5, 1 << 40, (1 << 63) + 1])
                    elif inspect.isclass(target) and issubclass(target, Enumerated) and rng.random() < 0.15:
                        val = max(enum_numbers(target)) + rng.choice([1, 3, 40])      # a number the enumeration does not define
                    else:
                        val = S.gen_element(rng, target, 1)
                except Exception:
                    run.count("cannot_generate_value")
                    continue
                ok = w.write(oid, pid, index, target, val, rng.choice([None, None, 8, 16, 1]), wit)
        else:
            specs = []
            for _ in range(rng.randrange(1, 4)):
                o2 = rng.choice(oids) if rng.random() < 0.9 else rng.choice([("analogValue", 77), ("device", 5)])
                ob2 = w.objs.get(o2) or (w.dev.device if o2 == ("device", 5) else None)
                refs = []
                for _ in range(rng.randrange(1, 4)):
                    q = rng.random()
                    if q < 0.25:
                        refs.append((rng.choice(["all", "required", "optional"]), None))
                    elif ob2 is not None and q < 0.9:
                        p2 = rng.choice(sorted(ob2._properties))
                        refs.append((p2, rng.choice([None, None, 0, 1, 50])))
                    else:
                        refs.append((rng.choice(all_pids), None))
                specs.append((o2, refs))
            ok = w.rpm(specs, wit)
        if ok is False:
            return
    run.count("sessions")


def main():
    run = Run("C15", "exploration", RULE, assumptions=[
        "the expected answer of a read is computed from the device's property store (a model dictionary built by reading it)",
        "the device declares a random half of the properties writable (Property.mutable); computed properties of the device "
        "object (local date/time, object list, property list ...) are only read",
        "wrong datatype may be signalled by Error property/invalid-data-type (or value-out-of-range) or by a Reject; when "
        "several refusal causes apply any of them is accepted",
        "an absent (None) optional property is 'unknown property'; all/required/optional leave absent properties out"])
    if run.tier == "replay":
        run.inconclusive_because("replay: re-run the tier with the same VERIF_SEED")
        return run.finish()
    thorough = run.tier == "thorough"
    if thorough and run.args.shard is None:
        run.run_shards("rv.props.c15", timeout=3400)
        return run.finish(require=("sessions", "reads", "writes_acknowledged", "writes_refused", "read_backs", "rpm_elements_compared", "commands_checked", "null_valued_writes", "renames", "renumberings", "added_property_sessions"))
    rng = run.rng("c15")
    for i in range((640 if thorough else 12) // (run.shard[1] if thorough else 1) + 1):
        run.sample({"session": i, "requests": 300 if thorough else 150})
        session(run, rng, 300 if thorough else 150, systematic=(i == 0 or (thorough and i % 4 == 0)))
        for j in range(4):
            run.case(("side-doors", run.shard[0], i, j), sample={"kind": "side-doors"}, sample_key=("side",))
            side_doors(run, rng)
    run.finish(require=("sessions", "reads", "writes_acknowledged", "writes_refused", "read_backs", "rpm_elements_compared", "commands_checked", "null_valued_writes", "renames", "renumberings", "added_property_sessions"))


if __name__ == "__main__":
    main_guard(main)
