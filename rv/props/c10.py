"""
C10  A device answers every well-framed request and stays healthy under garbage.

A real device application (ReadProperty, WriteProperty, ReadPropertyMultiple,
SubscribeCOV, DeviceCommunicationControl, Who-Is) on the virtual LAN receives
valid frames, every single-octet substitution / truncation / insertion of
them and random octets at the link, network and application layer, delivered
the way the UDP director delivers datagrams (one deferred call per datagram).
Counting oracle over the frame log keyed by (sender, invoke id), residue
census, differential check of a subsequent valid read.
"""

import struct
from copy import deepcopy

from .. import common
from ..common import Run, main_guard

common.bootstrap()

from ..vclock import CLOCK, StepBudgetExceeded
from ..fnet import FaultNet, Plan
from ..stacks import make_device, decode_frame, transaction_census, heap_transaction_timers
from .. import wire as W
from .. import refcodec as R

import bacpypes.core as core
from bacpypes.comm import bind
from bacpypes.pdu import Address, PDU, LocalBroadcast
from bacpypes.vlan import Node
from bacpypes.app import Application, ApplicationIOController
from bacpypes.appservice import StateMachineAccessPoint, ApplicationServiceAccessPoint
from bacpypes.netservice import NetworkServiceAccessPoint, NetworkServiceElement
from bacpypes.object import register_object_type, AnalogValueObject, BinaryValueObject, WritableProperty, MultiStateValueObject
from bacpypes.primitivedata import Real, CharacterString
from bacpypes.basetypes import BinaryPV
from bacpypes.local.object import CurrentPropertyListMixIn
from bacpypes.service.device import WhoIsIAmServices, DeviceCommunicationControlServices
from bacpypes.service.object import ReadWritePropertyServices, ReadWritePropertyMultipleServices
from bacpypes.service.cov import ChangeOfValueServices

RULE = ("valid frames of ReadProperty, WriteProperty, ReadPropertyMultiple, SubscribeCOV, DeviceCommunicationControl, "
        "private transfer and unknown service choices, each with every single-octet substitution {0x00,0xFF, 8 bit flips}, "
        "truncation at every length and insertion {0x00,0xFF} at every position; random octets as whole frame, as NPDU "
        "payload and as APDU parameters; batches of 1..8 such frames mixed with valid requests handed to the device in "
        "one deferred batch.  A case is one batch; non-trivial = at least one frame the independent decoder classifies as "
        "a well-framed confirmed request was in it.  distinct = distinct batches")

DEV = 5          # device station
INJ = 9          # injecting station
INJ2 = 8         # a second station that only ever sends garbage


@register_object_type(vendor_id=999)
class WAV(CurrentPropertyListMixIn, AnalogValueObject):
    properties = [WritableProperty("presentValue", Real)]


@register_object_type(vendor_id=999)
class WBV(CurrentPropertyListMixIn, BinaryValueObject):
    properties = [WritableProperty("presentValue", BinaryPV)]


class DevApp(ApplicationIOController, WhoIsIAmServices, ReadWritePropertyServices, ReadWritePropertyMultipleServices,
             ChangeOfValueServices, DeviceCommunicationControlServices):
    """as the library intends, the application keeps its device information cache up to date from the I-Ams it hears"""

    def do_IAmRequest(self, apdu):
        try:
            self.deviceInfoCache.iam_device_info(apdu)
        finally:
            WhoIsIAmServices.do_IAmRequest(self, apdu)


class Device:
    def __init__(self, lan):
        self.device = make_device(DEV, maxApduLengthAccepted=1024, segmentationSupported="segmentedBoth", _dcc_password="pw")
        self.app = DevApp(self.device)
        self.asap = ApplicationServiceAccessPoint()
        self.smap = StateMachineAccessPoint(self.device)
        self.smap.deviceInfoCache = self.app.deviceInfoCache
        self.app.smap = self.smap
        self.nsap = NetworkServiceAccessPoint()
        self.nse = NetworkServiceElement()
        bind(self.nse, self.nsap)
        bind(self.app, self.asap, self.smap, self.nsap)
        self.node = Node(Address(DEV), lan)
        self.nsap.bind(self.node)
        self.av = WAV(objectIdentifier=("analogValue", 1), objectName="av1", presentValue=72.5, statusFlags=[0, 0, 0, 0], covIncrement=1.0)
        self.bv = WBV(objectIdentifier=("binaryValue", 1), objectName="bv1", presentValue="inactive", statusFlags=[0, 0, 0, 0])
        self.app.add_object(self.av)
        self.app.add_object(self.bv)


# ----------------------------------------------------------------------
# valid frames, built with the independent encoders only
# ----------------------------------------------------------------------

def ctx(n, data):
    return (R.CTX, n, len(data), data)


def objid(t, i):
    return R.enc_objid(t, i)


def confirmed(invoke, service, tags, max_resp=5, sa=False):
    body = R.tlv_encode(tags)
    return W.npci_build({"der": True, "payload": W.apci_build({"type": W.CONFIRMED, "sa": sa, "max_segs": 0, "max_resp": max_resp,
                                                               "invoke": invoke, "service": service, "payload": body})})


def valid_frames(invoke0=1):
    """-> list of (label, octets)"""
    i = invoke0
    out = []
    out.append(("ReadProperty", confirmed(i, 12, [ctx(0, objid(2, 1)), ctx(1, b"\x55")])))                               # av1 presentValue
    out.append(("ReadProperty-index", confirmed(i + 1, 12, [ctx(0, objid(8, DEV)), ctx(1, b"\x4c"), ctx(2, b"\x00")])))  # device objectList[0]
    out.append(("ReadProperty-unknown-object", confirmed(i + 2, 12, [ctx(0, objid(2, 77)), ctx(1, b"\x55")])))
    out.append(("WriteProperty", confirmed(i + 3, 15, [ctx(0, objid(2, 1)), ctx(1, b"\x55"), (R.OPEN, 3, 0, b""),
                                                       (R.APP, R.REAL, 4, struct.pack(">f", 10.5)), (R.CLOSE, 3, 0, b""), ctx(4, b"\x08")])))
    out.append(("WriteProperty-binary", confirmed(i + 4, 15, [ctx(0, objid(5, 1)), ctx(1, b"\x55"), (R.OPEN, 3, 0, b""),
                                                              (R.APP, R.ENUM, 1, b"\x01"), (R.CLOSE, 3, 0, b"")])))
    out.append(("ReadPropertyMultiple", confirmed(i + 5, 14, [ctx(0, objid(2, 1)), (R.OPEN, 1, 0, b""), ctx(0, b"\x55"), ctx(0, b"\x4d"),
                                                             (R.CLOSE, 1, 0, b""), ctx(0, objid(5, 1)), (R.OPEN, 1, 0, b""), ctx(0, b"\x08"),
                                                             (R.CLOSE, 1, 0, b"")])))
    out.append(("SubscribeCOV", confirmed(i + 6, 5, [ctx(0, b"\x07"), ctx(1, objid(2, 1)), ctx(2, b"\x00"), ctx(3, b"\x3c")])))
    out.append(("DeviceCommunicationControl", confirmed(i + 7, 17, [ctx(1, b"\x00"), ctx(2, b"\x00pw")])))
    out.append(("PrivateTransfer-unsupported", confirmed(i + 8, 18, [ctx(0, b"\x03\xe7"), ctx(1, b"\x01")])))
    out.append(("unknown-service-99", confirmed(i + 9, 99, [ctx(0, b"\x01")])))
    out.append(("ReadProperty-no-parameters", confirmed(i + 10, 12, [])))
    out.append(("WhoIs", W.npci_build({"payload": W.apci_build({"type": W.UNCONFIRMED, "service": 8, "payload": b""})})))
    return out


def mutants(octets, rng, complete):
    n = len(octets)
    out = []
    for pos in range(n):
        subs = {0x00, 0xFF} | {octets[pos] ^ (1 << b) for b in range(8)}
        subs.discard(octets[pos])
        if not complete:
            subs = set(rng.sample(sorted(subs), 3))
        for s in sorted(subs):
            out.append(("sub", octets[:pos] + bytes([s]) + octets[pos + 1:]))
    for cut in range(n):
        out.append(("trunc", octets[:cut]))
    for pos in range(n + 1):
        for s in ((0x00, 0xFF) if complete else (rng.choice((0x00, 0xFF)),)):
            out.append(("ins", octets[:pos] + bytes([s]) + octets[pos:]))
    return out


def classify(octets):
    """what the independent decoder says about an injected frame (unicast from INJ to DEV)"""
    try:
        np = W.npci_parse(octets)
    except W.Malformed:
        return {"class": "bad-npci"}
    if np["net_message"] is not None:
        return {"class": "network-message"}
    if np["dnet"] is not None:
        return {"class": "has-dnet"}
    try:
        ap = W.apci_parse(np["payload"])
    except W.Malformed:
        return {"class": "bad-apci"}
    if ap["type"] != W.CONFIRMED:
        return {"class": "apdu-type-%d" % ap["type"], "apci": ap}
    if ap["seg"] and ap["seq"] == 0 and not ap["mor"] and np["snet"] is None and 1 <= ap["win"] <= 127:
        # a "segmented" request that is complete with its first segment: well-framed like any other
        return {"class": "well-framed-single-segment", "apci": ap, "invoke": ap["invoke"]}
    if ap["seg"]:
        return {"class": "segmented-request", "apci": ap, "invoke": ap["invoke"]}
    if np["snet"] is not None:
        return {"class": "well-framed-routed", "apci": ap, "invoke": ap["invoke"]}
    return {"class": "well-framed", "apci": ap, "invoke": ap["invoke"]}


def run_batch(run, frames, label, wit_extra=None, followups=(), big_device=False, settle=70.0, nothing_executed=False):
    """frames: list of octet strings (sent by station INJ) or (station, octets) pairs, handed to the device in one deferred
    batch; followups: [(delay, station, octets)] injected afterwards"""
    CLOCK.reset()
    lan = FaultNet("lan", Plan())
    lan.frame_cap = 10 ** 6
    dev = Device(lan)
    if big_device:
        for k in range(2, 30):
            dev.app.add_object(WAV(objectIdentifier=("analogValue", k), objectName="av%d" % k, presentValue=float(k), statusFlags=[0, 0, 0, 0]))
    inj = Node(Address(INJ), lan)           # its address exists on the LAN so that replies have somewhere to go
    inj2 = Node(Address(INJ2), lan)
    CLOCK.settle()
    n0 = len(lan.frames)
    srcs = [f[0] if isinstance(f, tuple) else INJ for f in frames]
    bcast = [isinstance(f, tuple) and len(f) > 2 and f[2] == "broadcast" for f in frames]
    frames = [f[1] if isinstance(f, tuple) else f for f in frames]
    classes = [classify(f) for f in frames]
    for c, sst in zip(classes, srcs):
        c["station"] = sst
    wit = {"batch_class": label, "frames": [f[:60] for f in frames], "classes": [c["class"] for c in classes], "stations": srcs,
           "followups": [(d, st, o[:30]) for d, st, o in followups]}
    if wit_extra:
        wit.update(wit_extra)
    # the UDP director hands each datagram to core.deferred(): same here, straight into the device's node
    for f, sst, bc in zip(frames, srcs, bcast):
        core.deferred(dev.node.response, PDU(f, source=Address(sst), destination=LocalBroadcast() if bc else Address(DEV)))
    try:
        for delay, sst, o in followups:
            CLOCK.drive(duration=delay, max_steps=200000)
            core.deferred(dev.node.response, PDU(o, source=Address(sst), destination=Address(DEV)))
        CLOCK.drive(duration=settle, max_steps=200000)
    except StepBudgetExceeded as err:
        run.violation("device-does-not-quiesce", dict(wit, error=str(err)))
        return
    swallowed = [r for r in CLOCK.swallowed.records if r["exc"]]
    for r in swallowed[:4]:
        run.seen("exceptions_reaching_the_event_loop", "%s@%s" % (r["exc"], r["origin"]))
    # replies from the device to the injector, by invoke id
    replies = {}
    replies2 = {}               # ... and to the second station
    classes2 = classes + [dict(classify(o), station=sst) for d_, sst, o in followups]
    dcc_acked = False
    for rec in lan.frames[n0:]:
        if str(rec["src"]) != str(DEV):
            continue
        d = decode_frame(rec)
        ap = d.get("apci")
        if not ap or d["dst"] not in (str(INJ), str(INJ2)):
            continue
        if ap["type"] in (W.SIMPLE_ACK, W.ERROR, W.REJECT, W.ABORT) or (ap["type"] == W.COMPLEX_ACK and (not ap["seg"] or ap["seq"] == 0)):
            if d["dst"] == str(INJ2):
                # only a well-framed request of the second station itself may be answered to it
                if not any(cc.get("invoke") == ap["invoke"] and cc["station"] == INJ2 and (cc["class"].startswith("well-framed") or cc["class"] == "segmented-request") for cc in classes2):
                    run.violation("reply-sent-to-a-station-that-did-not-ask", dict(wit, invoke=ap["invoke"], type=ap["type"]))
                    return False
                replies2.setdefault(ap["invoke"], []).append(ap)
                continue
            if ap["type"] == W.COMPLEX_ACK and ap["seg"] and len(replies.get(ap["invoke"], [])) >= 1 and not any(
                    cc.get("invoke") == ap["invoke"] for cc in classes[1:] if cc["class"].startswith("well-framed")):
                continue            # retransmission of the first segment of a segmented answer
            if ap["type"] == W.ABORT and not ap.get("srv"):
                # an abort that answers a request comes from the serving side and says so; with the bit clear the requester
                # looks for a transaction in which it is the server - and finds none, or one that has nothing to do with this
                # (a request of the device to that station with the same invoke id).  That includes a client's own abort sent
                # back to it
                echo = any(cc.get("apci", {}).get("type") == W.ABORT and cc["apci"].get("invoke") == ap["invoke"] for cc in classes2)
                run.violation("clients-abort-sent-back-to-it" if echo else "abort-answering-a-request-has-the-server-bit-clear",
                              dict(wit, invoke=ap["invoke"], reason=ap.get("reason")))
                return False
            replies.setdefault(ap["invoke"], []).append(ap)
            run.seen("reply_kinds", {2: "simple-ack", 3: "complex-ack", 5: "error", 6: "reject", 7: "abort"}[ap["type"]])
            if ap["type"] == W.SIMPLE_ACK and ap["service"] == 17:
                dcc_acked = True
    # an acknowledged DeviceCommunicationControl only matters when it really switched the device off
    dcc_acked = dcc_acked and getattr(dev.smap, "dccEnableDisable", "disable") != "enable"
    if label == "timed-disable" and dcc_acked and not any(
            cc["class"] == "well-framed" and cc["apci"]["service"] == 17 and cc is not classes2[0] and
            replies.get(cc["apci"]["invoke"], [{}])[0].get("type") == W.SIMPLE_ACK for cc in classes2):
        # the time of the (only acknowledged) disable is over, nothing else was acknowledged: the device has to be back
        run.violation("timed-communication-disable-does-not-end", dict(wit, state=getattr(dev.smap, "dccEnableDisable", None)))
        return False
    expected = {}
    for c in classes:
        if c["class"] in ("well-framed", "well-framed-routed", "well-framed-single-segment") and c["station"] == INJ:
            expected[c["invoke"]] = expected.get(c["invoke"], 0) + 1
    run.count("well_framed_requests_injected", sum(expected.values()))
    run.count("frames_injected", len(frames))
    ok = True
    if not dcc_acked:
        for inv, n in expected.items():
            got = len(replies.get(inv, []))
            run.count("requests_checked_for_exactly_one_reply", n)
            if label == "segmented-answer-dialogue" and got >= 1:
                continue            # what follows the first segment depends on the client's (scripted, possibly broken) follow-ups
            # a segment of a segmented request with the same invoke id in the same batch opens (or disturbs) a transaction of
            # its own and may be answered too (abort / reject): up to one more reply per such frame
            slack = sum(1 for cc in classes if cc["class"] == "segmented-request" and cc.get("invoke") == inv and cc["station"] == INJ)
            if n <= got <= n + slack:
                continue
            if got != n:
                which = [i for i, c in enumerate(classes) if c.get("invoke") == inv]
                ap = classes[which[0]]["apci"]
                key = "well-framed-request-not-answered" if got < n else "request-answered-more-than-once"
                if swallowed:
                    key += "/%s@%s" % (swallowed[0]["exc"], (swallowed[0]["origin"] or "?").split(":")[1])
                elif ap["max_resp"] > 5:
                    key += "/reserved-max-apdu-code"
                run.violation(key, dict(wit, invoke=inv, service=ap["service"], replies=got, expected=n, frame=frames[which[0]][:80],
                                        swallowed=swallowed[:2]))
                ok = False
                break
        # the second station's own well-framed (unrouted) requests: one reply each, whatever the first station has going on
        exp2 = {}
        for c in classes2:
            if c["class"] == "well-framed" and c["station"] == INJ2:
                exp2[c["invoke"]] = exp2.get(c["invoke"], 0) + 1
        for inv, n in exp2.items():
            got = len(replies2.get(inv, []))
            run.count("requests_checked_for_exactly_one_reply", n)
            run.count("second_station_requests_checked", n)
            if got != n and ok:
                key = "well-framed-request-of-another-station-not-answered" if got < n else "request-of-another-station-answered-more-than-once"
                if swallowed:
                    key += "/%s@%s" % (swallowed[0]["exc"], (swallowed[0]["origin"] or "?").split(":")[1])
                run.violation(key, dict(wit, invoke=inv, replies=got, expected=n, swallowed=swallowed[:2]))
                ok = False
    else:
        run.count("batches_with_accepted_communication_control")
    # replies with an invoke id nobody used
    for inv in replies:
        if inv not in expected and not any(c.get("apci", {}).get("invoke") == inv for c in classes2):
            run.violation("reply-with-invoke-id-of-no-request", dict(wit, invoke=inv))
            ok = False
    # residue
    live = transaction_census()
    if live:
        run.violation("transaction-left-on-device/%s" % type(live[0]).__name__ + ("/%s@%s" % (swallowed[0]["exc"], (swallowed[0]["origin"] or "?").split(":")[1]) if swallowed else ""),
                      dict(wit, states=[x.state for x in live][:4], swallowed=swallowed[:2]))
        ok = False
    if heap_transaction_timers():
        run.violation("transaction-timer-left-on-device", dict(wit))
        ok = False
    far = [(round(when - CLOCK.now, 1), type(t).__name__) for when, n_, t in CLOCK.tm.tasks if when - CLOCK.now > 600.0]
    if far and label != "timed-disable":
        # a device that has dealt with everything it was sent is idle: nothing is armed for hours ahead
        run.violation("timer-left-far-ahead-on-an-idle-device", dict(wit, timers=far[:3]))
        ok = False
    if nothing_executed and (dev.av.presentValue != 72.5 or dev.bv.presentValue != "inactive"):
        # the batch held nothing that is a complete request: nothing may have been carried out
        run.violation("incomplete-request-executed", dict(wit, analog_value=dev.av.presentValue, binary_value=str(dev.bv.presentValue)))
        ok = False
    # a subsequent valid request is answered correctly
    if not dcc_acked:
        probe = confirmed(200, 12, [ctx(0, objid(2, 1)), ctx(1, b"\x55")])
        n1 = len(lan.frames)
        core.deferred(dev.node.response, PDU(probe, source=Address(INJ), destination=Address(DEV)))
        CLOCK.drive(duration=10.0, max_steps=100000)
        ans = []
        for rec in lan.frames[n1:]:
            d = decode_frame(rec)
            ap = d.get("apci")
            if ap and d["src"] == str(DEV) and d["dst"] == str(INJ) and ap.get("invoke") == 200 and ap["type"] in (2, 3, 5, 6, 7):
                ans.append(ap)
        run.count("subsequent_reads_checked")
        want = struct.pack(">f", dev.av.presentValue)
        if len(ans) != 1 or ans[0]["type"] != W.COMPLEX_ACK:
            run.violation("subsequent-valid-request-not-answered", dict(wit, answers=[a["type"] for a in ans], swallowed=swallowed[:2]))
            ok = False
        else:
            try:
                tags = R.tlv_parse(ans[0]["payload"])
                vals = [t for t in tags if t[0] == R.APP and t[1] == R.REAL]
                if not vals or vals[0][3] != want:
                    run.violation("subsequent-read-returns-wrong-value", dict(wit, got=vals[0][3] if vals else None, want=want))
                    ok = False
            except R.Malformed:
                run.violation("subsequent-read-answer-malformed", dict(wit))
                ok = False
    if ok:
        run.count("batches_held")
    return ok


def main():
    run = Run("C10", "exploration", RULE, assumptions=[
        "well-framed = the independent decoder finds a valid NPCI without DNET, an APDU of type 0 with complete fixed header, "
        "not segmented; segmented first segments whose series never completes need no reply, only no residue",
        "after an acknowledged DeviceCommunicationControl the device may legitimately be silent: later expectations of that batch are void",
        "datagrams are handed over with core.deferred() like the UDP director does; the virtual LAN carries the replies"])
    if run.tier == "replay":
        return replay(run)
    thorough = run.tier == "thorough"
    if thorough and run.args.shard is None:
        run.run_shards("rv.props.c10", timeout=3400)
        return run.finish(require=("well_framed_requests_injected", "requests_checked_for_exactly_one_reply", "subsequent_reads_checked", "batches_held",
                                   "second_station_requests_checked"))
    rng = run.rng("c10")
    idx = 0
    valid = valid_frames()
    # 1. every valid frame alone and all together
    for label, f in valid:
        run.case(("valid", label), sample={"valid_frame": label, "octets": f}, sample_key=("valid", label))
        run_batch(run, [f], "valid/" + label)
    run.case(("valid", "all"))
    run_batch(run, [f for _, f in valid], "valid/all-in-one-batch")
    # 2. mutants, in batches together with a valid request before and after
    for label, f in valid:
        ms = mutants(f, rng, complete=thorough)
        bsize = 6
        for k in range(0, len(ms), bsize):
            idx += 1
            if not run.mine(idx):
                continue
            chunk = [m[1] for m in ms[k:k + bsize]]
            guard_a = confirmed(150, 12, [ctx(0, objid(2, 1)), ctx(1, b"\x55")])
            guard_b = confirmed(151, 12, [ctx(0, objid(5, 1)), ctx(1, b"\x55")])
            batch = [guard_a] + chunk + [guard_b]
            run.case(("mut", label, k, run.seed if not thorough else 0), sample={"base": label, "mutants": [m[:40] for m in chunk[:3]]},
                     sample_key=("mut", label))
            run_batch(run, batch, "mutants/" + label)
    # 2a. every valid request once more as a "segmented" request that consists of its first segment only
    for label, f in valid[:11]:
        apdu = f[2:]
        one = f[:2] + bytes([apdu[0] | 0x08]) + apdu[1:3] + bytes([0, rng.choice([1, 2, 16])]) + apdu[3:]
        run.case(("single-segment", label), sample={"single_segment_request": label, "octets": one}, sample_key=("single", label == "ReadProperty"))
        run_batch(run, [one, confirmed(152, 12, [ctx(0, objid(2, 1)), ctx(1, b"\x55")])], "single-segment/" + label)
    # 2a'. a last segment without the segments before it (a late duplicate of the end of an earlier request, say): the writes
    #      it would amount to if it were taken for a whole request must not happen
    for label, f in valid[3:5]:
        for seq in (1, 3, 255):
            apdu = f[2:]
            orphan = f[:2] + bytes([apdu[0] | 0x08]) + apdu[1:3] + bytes([seq, rng.choice([1, 2, 16])]) + apdu[3:]
            run.case(("orphan-segment", label, seq), sample={"orphan_last_segment": label, "sequence_number": seq}, sample_key=("orphan", seq == 1))
            run_batch(run, [orphan], "orphan-last-segment/" + label, nothing_executed=True)
            run.count("orphan_segments_checked")
    # 2b. garbage from a second station that claims to forward for a remote network, then a valid routed request through
    #     the genuine router: the answer has to go back through the station that forwarded the request
    for i in range((16000 if thorough else 60) // (run.shard[1] if thorough else 1)):
        idx += 1
        snet = rng.choice([7, 7, 300])
        garbage = []
        for _ in range(rng.randrange(1, 4)):
            apdu = bytes(rng.getrandbits(8) for _ in range(rng.randrange(0, 12))) if rng.random() < 0.6 else rng.choice(valid)[1][2:]
            garbage.append((INJ2, W.npci_build({"snet": snet, "sadr": bytes([rng.choice([5, 6])]), "der": True, "payload": apdu})))
        body = R.tlv_encode([ctx(0, objid(2, 1)), ctx(1, b"\x55")])
        routed = W.npci_build({"snet": 7, "sadr": b"\x05", "der": True,
                               "payload": W.apci_build({"type": W.CONFIRMED, "max_segs": 0, "max_resp": 5, "invoke": 160, "service": 12, "payload": body})})
        if rng.random() < 0.5:
            # the router announces the number of this network: once with a wrong number (a corrupted octet, a misconfigured
            # second router), then with the right one - the device learns, and learns better
            nets = rng.choice([(6, 5), (5, 6, 5), (5,), (5, 5), (1, 2, 3), (7, 5), (7, 5, 5), (7, 6, 5)])
            garbage = [(rng.choice([INJ, INJ2]), W.npci_build({"net_message": 0x13, "payload": bytes([n >> 8, n & 0xFF, rng.choice([0, 1])])}), "broadcast")
                       for n in nets] + garbage
            if rng.random() < 0.5:
                # ... and somebody asks what the number is (a plain device lets a router answer first)
                garbage.append((rng.choice([INJ, INJ2]), W.npci_build({"net_message": 0x12}), "broadcast"))
            run.count("batches_with_network_number_announcements")
        order = garbage + [(INJ, routed)] if rng.random() < 0.7 else [(INJ, routed)] + garbage + [(INJ, routed.replace(b"\xa0\x0c", b"\xa1\x0c", 1))]
        run.case(("routed", run.shard[0], i), sample={"routed_request_after_foreign_garbage": [o[1][:20] for o in order[:3]]}, sample_key=("routed", i < 1))
        run_batch(run, order, "routed-request-after-foreign-garbage")
    # 2c. dialogues on a segmented answer: the device has started a segmented response, the next frame from the client is
    #     a (possibly corrupted) segment-ack, an abort, the request again, garbage - then silence
    big = confirmed(170, 14, [ctx(0, objid(8, DEV)), (R.OPEN, 1, 0, b""), ctx(0, b"\x4c"), (R.CLOSE, 1, 0, b"")], max_resp=0, sa=True)
    for i in range((16000 if thorough else 80) // (run.shard[1] if thorough else 1)):
        idx += 1
        fol = []
        for _ in range(rng.randrange(1, 4)):
            r = rng.random()
            if r < 0.55:
                o = W.npci_build({"payload": W.apci_build({"type": W.SEGMENT_ACK, "nak": rng.random() < 0.3, "srv": rng.random() < 0.1, "invoke": rng.choice([170, 170, 170, 171]),
                                                           "seq": rng.choice([0, 0, 1, 2, 9, 200, 255]), "win": rng.choice([1, 2, 4, 0, 127, 255])})})
            elif r < 0.7:
                o = W.npci_build({"payload": W.apci_build({"type": W.ABORT, "srv": rng.random() < 0.3, "invoke": 170, "reason": 0})})
            elif r < 0.85:
                o = big
            else:
                o = bytes(rng.getrandbits(8) for _ in range(rng.randrange(0, 12)))
            fol.append((rng.choice([0.0, 0.1, 1.0, 2.5]), INJ, o))
        run.case(("segdialogue", run.shard[0], i), sample={"segmented_answer_dialogue": [(d, o[:12]) for d, st, o in fol]}, sample_key=("segd", i < 1))
        run_batch(run, [big], "segmented-answer-dialogue", followups=fol, big_device=True)
    # 2d. two stations using the same invoke id: the second asks while the first station's transaction is still open (a
    #     segmented answer under way, a segmented request being uploaded)
    def iam(station, seg, maxapdu=480):
        body = R.tlv_encode([(R.APP, R.OBJID, 4, objid(8, station)), (R.APP, R.UNSIGNED, 2, struct.pack(">H", maxapdu)),
                             (R.APP, R.ENUM, 1, bytes([seg])), (R.APP, R.UNSIGNED, 2, struct.pack(">H", 999))])
        return W.npci_build({"payload": W.apci_build({"type": W.UNCONFIRMED, "service": 0, "payload": body})})

    for i in range((4000 if thorough else 40) // (run.shard[1] if thorough else 1)):
        idx += 1
        inv = rng.choice([170, 9, 255, 0])
        other = rng.choice(valid[:6] + valid[8:11])
        second = bytearray(other[1])
        # same invoke id as the first station's transaction (the invoke id is the third octet of the APDU, NPCI is 2 octets)
        second[4] = inv
        if rng.random() < 0.5:
            first = confirmed(inv, 14, [ctx(0, objid(8, DEV)), (R.OPEN, 1, 0, b""), ctx(0, b"\x4c"), (R.CLOSE, 1, 0, b"")], max_resp=0, sa=True)
            kind = "during-segmented-answer"
        else:
            # first segment of a two-segment request (more follows), never completed
            first = W.npci_build({"der": True, "payload": W.apci_build({"type": W.CONFIRMED, "seg": True, "mor": True, "sa": True, "max_segs": 0, "max_resp": 5,
                                                                         "invoke": inv, "seq": 0, "win": 2, "service": 15, "payload": b"\x0c\x00\x80\x00\x01"})})
            kind = "during-segmented-request"
        fol = [(rng.choice([0.0, 0.1, 0.5]), INJ2, bytes(second))]
        if rng.random() < 0.5:
            fol.append((rng.choice([0.0, 0.2]), INJ2, bytes(second[:4]) + bytes([(inv + 1) & 0xFF]) + bytes(second[5:])))
        run.case(("two-stations", run.shard[0], i), sample={"same_invoke_id_from_two_stations": kind, "second_request": other[0]}, sample_key=("2st", kind))
        run_batch(run, [first], "same-invoke-id-from-another-station/" + kind, followups=fol, big_device=True)
    # 2e. the device has heard the requester's I-Am; the request then says something else about segmentation than the I-Am
    #     (segmented response accepted although the I-Am said no segmentation), or another I-Am arrives around the request
    for i in range((4000 if thorough else 60) // (run.shard[1] if thorough else 1)):
        idx += 1
        seg = rng.choice([3, 3, 1, 0, 2])           # no-segmentation, segmented-transmit, segmented-both, segmented-receive
        which = rng.choice([0, 2, 3, 4, 6, 8, 9, 10])
        req = bytearray(valid[which][1])
        if rng.random() < 0.7:
            req[2] |= 0x02                          # segmented response accepted
        batch = [iam(INJ, seg)]
        if rng.random() < 0.3:
            batch.append(iam(INJ2, rng.choice([0, 3])))
        batch.append(bytes(req))
        if rng.random() < 0.4:
            batch.append(iam(INJ, rng.choice([0, 3])))
        second = bytearray(valid[rng.choice([0, 3, 4])][1])
        second[4] = 77
        second[2] |= 0x02
        batch.append(bytes(second))
        run.case(("after-iam", run.shard[0], i), sample={"request_after_i_am": valid[which][0], "i_am_segmentation": seg}, sample_key=("iam", seg))
        run_batch(run, batch, "request-after-i-am")
    # 2f. a timed DeviceCommunicationControl 'disable' is in force; requests that are refused (wrong or missing password,
    #     broken parameters) or garbage arrive meanwhile; when the time is over the device answers again
    for i in range((600 if thorough else 16) // (run.shard[1] if thorough else 1)):
        idx += 1
        minutes = rng.choice([1, 1, 2])
        disable = confirmed(180, 17, [ctx(0, bytes([minutes])), ctx(1, b"\x01"), ctx(2, b"\x00pw")])
        fol = []
        for _ in range(rng.randrange(1, 4)):
            r = rng.random()
            if r < 0.5:
                o = confirmed(181 + len(fol), 17, [ctx(1, bytes([rng.choice([0, 1, 2])])), ctx(2, b"\x00" + rng.choice([b"px", b"", b"pw ", b"PW"]))])
            elif r < 0.7:
                o = confirmed(181 + len(fol), 17, [ctx(1, b"\x00")])                         # no password at all
            elif r < 0.85:
                o = rng.choice(valid)[1]
            else:
                o = bytes(rng.getrandbits(8) for _ in range(rng.randrange(0, 12)))
            fol.append((rng.choice([1.0, 5.0, 20.0]), INJ, o))
        run.case(("timed-disable", run.shard[0], i), sample={"timed_disable_minutes": minutes, "meanwhile": [o[:16] for d, st, o in fol]}, sample_key=("dcc", i < 1))
        run_batch(run, [disable], "timed-disable", followups=fol, settle=60.0 * minutes + 15.0)
        run.count("timed_disable_batches")
    # 3. random octets at three layers
    nrand = (80000 if thorough else 500) // (run.shard[1] if thorough else 1)
    for i in range(nrand):
        batch = []
        for _ in range(rng.randrange(1, 8)):
            r = rng.random()
            if r < 0.25:
                batch.append(bytes(rng.getrandbits(8) for _ in range(rng.randrange(0, 40))))                      # link level garbage
            elif r < 0.5:
                batch.append(bytes([1, rng.choice([0, 4, 0x20, 0x08, 0x80, rng.getrandbits(8)])]) + bytes(rng.getrandbits(8) for _ in range(rng.randrange(0, 30))))
            elif r < 0.8:
                hdr = W.apci_build({"type": W.CONFIRMED, "sa": rng.random() < 0.5, "max_segs": rng.randrange(8), "max_resp": rng.choice([0, 3, 5, 5, 5, rng.randrange(16)]),
                                    "invoke": rng.randrange(256), "service": rng.choice([12, 14, 15, 5, 17, 18, 28, rng.randrange(256)]), "payload": b""})
                batch.append(W.npci_build({"der": True, "payload": hdr + bytes(rng.getrandbits(8) for _ in range(rng.randrange(0, 30)))}))
            else:
                batch.append(rng.choice(valid)[1])
        run.case(("rand", run.shard[0], i), sample={"random_batch": [b[:24] for b in batch[:3]]}, sample_key=("rand", i < 2))
        run_batch(run, batch, "random")
    run.finish(require=("well_framed_requests_injected", "requests_checked_for_exactly_one_reply", "subsequent_reads_checked", "batches_held",
                        "second_station_requests_checked"))


def replay(run):
    import json
    with open(run.replay_path) as f:
        w = json.load(f)["witness"]
    frames = [bytes.fromhex(x[4:]) for x in w["frames"]]
    run_batch(run, frames, w.get("batch_class", "replay"))
    run.finish()


if __name__ == "__main__":
    main_guard(main)
