"""
C03  Every service PDU and constructed type round-trips and matches the standard.

Schema-driven generator over all registered service PDUs and all Sequence /
Choice types of apdu / basetypes (rv.schema); self-consistency oracle through
the full production encode/decode path, independent TLV well-formedness of
every produced stream, trailing-data rejection, and a table of worked examples
from Annex F whose expected octets are derived with the independent reference
codec from the worded parameter values.
"""

import inspect

from .. import common
from ..common import Run, main_guard

common.bootstrap()

from .. import refcodec as R
from .. import schema as S
from .. import wire as W
from . import c03_annexf as AF

from bacpypes.constructeddata import Sequence, Choice
from bacpypes.errors import RejectException, AbortException, DecodingError

RULE = ("for each of the registered service PDUs (4 registries) and each Sequence/Choice type of apdu/basetypes: every presence "
        "pattern of optional elements (all 2^k for k<=6, sampled above), every choice alternative, list lengths 0..3, nesting "
        "to depth 4..6, leaves from the boundary pools; values are encoded through the production path (service class -> "
        "typed PDU -> APDU -> octets), the octets checked for TLV well-formedness with the independent parser, decoded "
        "through APDU.decode -> registry -> class.decode, compared structurally and re-encoded; an extra tag appended must "
        "be rejected; Annex F examples in both directions.  distinct = distinct (class, normalised value)")


def wellformed(run, octets, wit):
    try:
        tags = R.tlv_parse(octets, strict=False)
    except R.Malformed as err:
        run.violation("produced-stream-not-parseable", dict(wit, error=str(err), octets=octets[:60]))
        return False
    depth = []
    for cls, num, lvt, data in tags:
        if cls == R.OPEN:
            depth.append(num)
        elif cls == R.CLOSE:
            if not depth or depth[-1] != num:
                run.violation("produced-stream-not-balanced", dict(wit, octets=octets[:60]))
                return False
            depth.pop()
    if depth:
        run.violation("produced-stream-not-balanced", dict(wit, octets=octets[:60]))
        return False
    if R.tlv_encode(tags) != octets:
        run.violation("produced-stream-not-canonical", dict(wit, octets=octets[:60]))
        return False
    return True


def decode_key(klass, err):
    """mechanism key of a decode failure: the schema mechanism where there is one, else class + exception"""
    if isinstance(err, NotImplementedError) and "must be context encoded" in str(err):
        return "untagged-constructed-choice-alternative-not-decodable"
    return "own-encoding-not-decodable/%s/%s" % (klass.__name__, type(err).__name__)


def describe(klass, v):
    return repr(S.norm(klass, v))[:600]


def check_constructed(run, klass, v, label):
    wit = {"class": klass.__name__, "value": describe(klass, v), "pattern": label}
    n0 = S.norm(klass, v)
    try:
        octets = S.encode_constructed(v)
    except Exception as err:
        run.violation("encode-raised/%s/%s" % (klass.__name__, type(err).__name__), dict(wit, error=repr(err)[:160]))
        return
    run.count("values_encoded")
    if not wellformed(run, octets, wit):
        return
    try:
        x, left = S.decode_constructed(klass, octets)
    except Exception as err:
        run.violation(decode_key(klass, err), dict(wit, error=repr(err)[:160], octets=octets[:80]))
        return
    if left:
        run.violation("decoder-left-tags/%s" % klass.__name__, dict(wit, left=left, octets=octets[:80]))
        return
    run.count("values_decoded")
    n1 = S.norm(klass, x)
    if n1 != n0:
        run.violation("roundtrip-value-differs/%s" % klass.__name__, dict(wit, decoded=repr(n1)[:600], octets=octets[:80]))
        return
    try:
        again = S.encode_constructed(x)
    except Exception as err:
        run.violation("decoded-value-not-encodable/%s/%s" % (klass.__name__, type(err).__name__), dict(wit, error=repr(err)[:160]))
        return
    if again != octets:
        run.violation("re-encoding-differs/%s" % klass.__name__, dict(wit, first=octets[:60], second=again[:60]))


def check_pdu(run, reg, choice, klass, v, label):
    wit = {"class": klass.__name__, "registry": reg, "service": choice, "value": describe(klass, v), "pattern": label}
    n0 = S.norm(klass, v)
    try:
        octets = S.encode_pdu(reg, choice, v)
    except Exception as err:
        run.violation("encode-raised/%s/%s" % (klass.__name__, type(err).__name__), dict(wit, error=repr(err)[:160]))
        return
    run.count("values_encoded")
    # the same PDU object is encoded once more (a kept request issued again, a decoded request forwarded twice): same octets
    try:
        twice = S.encode_pdu(reg, choice, v)
    except Exception as err:
        twice = "raised " + type(err).__name__
    if twice != octets:
        run.violation("second-encoding-of-the-same-object-differs/%s" % klass.__name__,
                      dict(wit, first=octets[:40], second=twice[:60] if isinstance(twice, bytes) else twice))
        return
    try:
        ap = W.apci_parse(octets)
    except W.Malformed as err:
        run.violation("produced-apdu-header-malformed/%s" % klass.__name__, dict(wit, octets=octets[:40]))
        return
    want_type = {"confirmed": W.CONFIRMED, "complex-ack": W.COMPLEX_ACK, "unconfirmed": W.UNCONFIRMED, "error": W.ERROR}[reg]
    if ap["type"] != want_type or ap["service"] != choice:
        run.violation("service-choice-or-type-wrong-on-the-wire/%s" % klass.__name__, dict(wit, header={k: v for k, v in ap.items() if k != "payload"}))
        return
    if not wellformed(run, ap["payload"], wit):
        return
    try:
        z, t = S.decode_pdu(reg, octets)
    except Exception as err:
        run.violation(decode_key(klass, err), dict(wit, error=repr(err)[:160], octets=octets[:80]))
        return
    if type(z) is not klass:
        run.violation("registry-returns-another-class/%s" % klass.__name__, dict(wit, got=type(z).__name__))
        return
    run.count("values_decoded")
    n1 = S.norm(klass, z)
    if n1 != n0:
        run.violation("roundtrip-value-differs/%s" % klass.__name__, dict(wit, decoded=repr(n1)[:600], octets=octets[:80]))
        return
    try:
        again = S.encode_pdu(reg, choice, z)
    except Exception as err:
        run.violation("decoded-value-not-encodable/%s/%s" % (klass.__name__, type(err).__name__), dict(wit, error=repr(err)[:160]))
        return
    if again != octets:
        run.violation("re-encoding-differs/%s" % klass.__name__, dict(wit, first=octets[:60], second=again[:60]))
        return
    # trailing data must be rejected, not ignored
    extra = octets + R.tlv_encode([(R.CTX, 14, 1, b"\x00")])
    try:
        S.decode_pdu(reg, extra)
        run.count("trailing_data_accepted_by_any_tail")
        # a class whose last element is an Any / open list legitimately swallows more tags
        last = klass.sequenceElements[-1].klass if klass.sequenceElements else None
        from bacpypes.constructeddata import Any
        if not (last is Any or S.is_seqof(last) or S.is_listof(last) or (inspect.isclass(last) and issubclass(last, Choice))):
            run.violation("trailing-data-not-rejected/%s" % klass.__name__, dict(wit))
    except (RejectException, AbortException, DecodingError, AttributeError, Exception):
        run.count("trailing_data_rejected")


def check_any_casts(run, rng, n):
    """a received PDU whose parameter is an 'any': the application looks at the content as the type it knows it to be (cast_out),
    perhaps twice, and then relays or re-encodes the PDU.  Looking must not change what is there"""
    from bacpypes.apdu import WritePropertyRequest, ReadPropertyACK
    from bacpypes.constructeddata import Any, ArrayOf, SequenceOf
    from bacpypes.primitivedata import Real, CharacterString, Unsigned
    from bacpypes.basetypes import DateTime as BT_DateTime
    pool = list(S.ANY_POOL) + [Real, CharacterString, Unsigned, ArrayOf(Unsigned), SequenceOf(BT_DateTime)]
    for i in range(n):
        k = pool[i % len(pool)]
        try:
            v = S.gen_element(rng, k, 1)
        except S.CannotBuild:
            continue
        for reg, choice, pk in (("confirmed", 15, WritePropertyRequest), ("complex-ack", 12, ReadPropertyACK)):
            wit = {"pdu": pk.__name__, "content_class": getattr(k, "__name__", str(k))}
            try:
                a = Any()
                a.cast_in(v if not isinstance(v, list) else k(v))
                pdu = pk(objectIdentifier=("analogValue", 1), propertyIdentifier="presentValue", propertyValue=a)
                octets = S.encode_pdu(reg, choice, pdu)
                back, _t = S.decode_pdu(reg, octets)
            except Exception as err:
                run.count("any_cast_cases_not_buildable")
                run.seen("any_cast_not_buildable", type(err).__name__ + ":" + wit["content_class"])
                continue
            run.case(("any-cast", pk.__name__, wit["content_class"], i), sample=None)
            run.count("any_casts_checked")
            try:
                first = back.propertyValue.cast_out(k)
                n1 = S.norm(k, first)
                second = back.propertyValue.cast_out(k)
                n2 = S.norm(k, second)
                again = S.encode_pdu(reg, choice, back)
            except Exception as err:
                run.violation("any-content-cannot-be-looked-at-twice/%s" % type(err).__name__, dict(wit, error=repr(err)[:120]))
                return
            want = S.norm(k, v if not isinstance(v, list) else k(v))
            if n1 != want or n2 != want:
                run.violation("any-content-differs-after-cast", dict(wit, first=repr(n1)[:160], second=repr(n2)[:160], expected=repr(want)[:160]))
                return
            if again != octets:
                run.violation("pdu-changed-by-looking-at-its-any-parameter", dict(wit, before=octets[:40], after=again[:40]))
                return


def patterns(klass):
    """presence patterns / alternatives to enumerate for a class"""
    if issubclass(klass, Choice):
        return list(range(len(klass.choiceElements)))
    k = sum(1 for e in klass.sequenceElements if e.optional)
    if k <= 6:
        return list(range(1 << k))
    return [0, (1 << k) - 1] + [1 << i for i in range(k)] + [((1 << k) - 1) ^ (1 << i) for i in range(k)]


def main():
    run = Run("C03", "exploration", RULE, assumptions=[
        "structural equality: atomics as in C01 (Real by binary32 bits, enumerations by number), absent optional = None which is "
        "not equal to an empty list",
        "generated values are structurally valid only (no semantic constraints between fields)",
        "Annex F vectors: expected octets derived with rv/refcodec from the worded parameter values; a transcribed hex string "
        "is used only when it agrees with that derivation",
        "a class whose last element is an Any, an open list or a Choice may legitimately consume an appended tag"])
    if run.tier == "replay":
        run.inconclusive_because("replay: re-run the tier with the same VERIF_SEED")
        return run.finish()
    thorough = run.tier == "thorough"
    if thorough and run.args.shard is None:
        run.run_shards("rv.props.c03", timeout=3400)
        return run.finish(require=("values_encoded", "values_decoded", "annex_f_vectors_checked"))
    rng = run.rng("c03")
    per_pattern = 100 if thorough else 3
    floor = 6000 if thorough else 120
    idx = 0
    pdus = S.registered_pdus()
    pdu_classes = {k for _, _, k in pdus}
    run.extra["registered_pdus"] = len(pdus)
    for reg, choice, klass in pdus:
        idx += 1
        if not run.mine(idx):
            continue
        pats = patterns(klass)
        reps = max(per_pattern, -(-floor // len(pats)))
        built = 0
        for p in pats:
            for r in range(reps):
                try:
                    v = S.gen_element(rng, klass, 0, presence=p)
                except S.CannotBuild as err:
                    run.count("cannot_build")
                    run.seen("cannot_build_reasons", str(err)[:60])
                    continue
                built += 1
                run.case((klass.__name__, repr(S.norm(klass, v))), sample={"class": klass.__name__, "registry": reg, "value": describe(klass, v)[:200]},
                         sample_key=("pdu", reg) if built == 1 and choice < 3 else None)
                check_pdu(run, reg, choice, klass, v, p)
    classes = [k for k in S.constructed_classes() if k not in pdu_classes]
    run.extra["constructed_types"] = len(classes)
    for klass in classes:
        idx += 1
        if not run.mine(idx):
            continue
        if issubclass(klass, Sequence) and not klass.sequenceElements:
            continue
        pats = patterns(klass)
        reps = max(per_pattern, -(-floor // max(1, len(pats))))
        for p in pats:
            for r in range(reps):
                try:
                    v = S.gen_element(rng, klass, 0, presence=p)
                except S.CannotBuild as err:
                    run.count("cannot_build")
                    run.seen("cannot_build_reasons", str(err)[:60])
                    continue
                run.case((klass.__name__, repr(S.norm(klass, v))))
                check_constructed(run, klass, v, p)
    check_any_casts(run, rng, (4000 if thorough else 400) // (run.shard[1] if thorough else 1))
    if run.shard[0] == 0:
        AF.check_all(run)
    run.finish(require=("values_encoded", "values_decoded", "any_casts_checked") + (("annex_f_vectors_checked",) if run.shard[0] == 0 else ()))


if __name__ == "__main__":
    main_guard(main)
