"""Per-property metadata from which MANIFEST.json is generated (tools/gen_manifest.py)."""

HOOKS = {
    "guard": "BACPYPES_VERIF",
    "enable": "no source hooks: ./check exports BACPYPES_VERIF=1 and PYTHONPATH=/repo/py34; monitors are attached "
              "to the imported working-tree modules by the harness (attribute wrappers, sys.monitoring, logging "
              "handler, virtual clock on bacpypes.task._time)",
    "baseline_off_cmd": "cd /repo && PYTHONPATH=/repo/py34 /venv/bin/python -m pytest -q -p no:cacheprovider --timeout=900",
    "source_commits": [],
    "add_only": True,
}

NOTES = ("All checks run /venv/bin/python against /repo/py34 (the working tree; the copy in site-packages is never "
         "imported - a check that finds bacpypes elsewhere is inconclusive).  Exit 0 held / 1 violation / 2 "
         "inconclusive.  Known findings and fixed defects: known_findings.txt.  Seeded breaks: seeded/.")

_PENDING = "check not built yet in this revision of /verif (planned in DESIGN.md section 3); runtime monitoring applies"

CHECKS = {
    "C01": {
        "level": "exploration",
        "design_ref": "DESIGN.md 3 C01",
        "technique": "runtime monitor: independent reference codec as oracle on real encode/decode over boundary+random value pools",
        "text": "Every concrete Atomic subclass (about 100 classes) is driven with boundary and random values through the "
                "real constructors, encode, Tag.encode, Tag.decode, app_to_context/context_to_app and decode; each "
                "produced octet string is compared with an independent clause-20.2 reference encoder, each decode "
                "with the model value, and unrepresentable values must be refused.  Held on the cases listed in the "
                "evidence; sampling of the 2^32 / 2^64 spaces, exhaustive on the small ones.",
        "note": "trusts rv/refcodec.py (written from the standard, cross-checked on Annex F octets) and struct's IEEE-754 packing",
    },
    "C02": {
        "level": "exploration",
        "design_ref": "DESIGN.md 3 C02",
        "technique": "runtime monitor: reference TLV parser + bracket-depth model as oracles, sys.monitoring line budget for termination",
        "text": "TagList.encode/decode, TagList.get_context and Any.decode/encode of the real library are run on (a) the "
                "class x number x length-boundary cross product and random tag lists, (b) every octet string up to length "
                "2 (quick) / 3 (thorough, 16.8M) plus mutants and random strings, (c) every open/close/context sequence "
                "up to length 6/7; an independent clause-20.2.1 parser and a depth model decide each outcome, a "
                "sys.monitoring LINE budget on the decoder loops turns non-termination into a verdict.",
        "note": "trusts rv/refcodec.tlv_parse/tlv_encode; 4-octet length escapes above 70000 only sampled",
    },
    "C07": {
        "level": "exploration",
        "design_ref": "DESIGN.md 3 C07",
        "technique": "runtime monitor: independent clause-20.1 header builder/parser as oracle on APDU.encode/decode, literal code tables",
        "text": "All eight PDU types are encoded through APDU.encode and through the typed PDU classes over the cross "
                "product of flags, code points and octet-field boundary values, compared octet for octet with an "
                "independent clause-20.1 builder, decoded back and compared field by field; the four table functions "
                "are compared with the standard's tables over all code points and capabilities 0..2000 (round down, "
                "never up); every octet string up to length 2/3 and random longer ones must decode to the reference's "
                "fields or raise DecodingError.",
        "note": "trusts rv/wire.py apci_build/apci_parse and the two literal tables",
    },
    "C08": {
        "level": "exploration",
        "design_ref": "DESIGN.md 3 C08",
        "technique": "runtime monitor: independent clause-6.2/6.4 builder/parser as oracle on NPDU and the twelve message classes",
        "text": "NPDU.encode/decode and the twelve registered network messages are driven over destination/source address "
                "shapes (1..255-octet stations, remote and global broadcast), hop counts, message types 0..255 with vendor "
                "ids, priorities, all 256 control octets on decode, network lists 0..20 and routing tables 0..5; octets are "
                "compared with an independent builder, decodes with an independent parser; forbidden headers (version, "
                "broadcast/zero-length source, every truncation) must raise DecodingError and nothing else.",
        "note": "trusts rv/wire.py npci_build/npci_parse/nlm_build",
    },
    "C09": {
        "level": "exploration",
        "design_ref": "DESIGN.md 3 C09",
        "technique": "runtime monitor: independent Annex-J builder/parser as oracle on frames entering and leaving the real AnnexJCodec",
        "text": "The twelve BVLL functions are sent through the real AnnexJCodec (tables 0..40, payloads 0..1497, address/"
                "port/mask/TTL boundaries); every emitted frame must start 0x81, carry the function code and a length "
                "field equal to the datagram length and equal the reference octets, and decode back to the same "
                "parameters; inbound frames with every wrong length/type, all function codes 0..255, all short octet "
                "strings and mutants must be refused or delivered exactly as the reference parses them.",
        "note": "trusts rv/wire.py bvlc_build/bvlc_parse; which exception refuses an unknown function code is not prescribed",
    },
    "C18": {
        "level": "exploration",
        "design_ref": "DESIGN.md 3 C18",
        "technique": "runtime monitor: independent notation parser + ipaddress as oracle; equivalence-relation and dict probes over spelling pools",
        "text": "Every notation is parsed by the real Address class and by an independent parser; type, network, station "
                "octets and (for IP forms, all 33 masks x port boundaries) subnet/host/directed broadcast from the "
                "standard ipaddress module must agree; range edges must be refused; str()/parse round trips; all pairs "
                "of ~150 spellings in ~25 equivalence pools are compared for ==, !=, hash and dict lookup in both "
                "directions; tens of thousands of grammar mutants must be refused exactly when ill-formed.",
        "note": "default settings (route_aware off); IPv4 components with leading zeros are skipped as ambiguous",
    },
    "C14": {
        "level": "exploration",
        "design_ref": "DESIGN.md 3 C14",
        "technique": "runtime monitor: lock-step reference scheduler over the real TaskManager/core loops under a virtual clock; class invariant on the heap; threaded stress",
        "text": "The real TaskManager, core.run_once and core.run are executed under a virtual clock (only "
                "bacpypes.task._time is replaced).  Every operation sequence up to length 4/5 (3 tasks) and 5/6 (2 "
                "tasks), random histories of length 200 with callbacks that re-install/suspend/defer/raise, a grid of "
                "recurring intervals x offsets x clock origins, every subset of raising members in deferred batches "
                "up to 5/6 under both loops, and producer threads calling deferred() are compared with a reference "
                "scheduler (order, never early, once, suspended never fires, exactly-once deferred in order, "
                "isolation of failures); a heap/flag invariant is evaluated after every TaskManager method.",
        "note": "how deferred calls and tasks due at the same instant interleave is not judged; natural thread switch points only",
    },
    "C19": {
        "level": "exploration",
        "design_ref": "DESIGN.md 3 C19",
        "technique": "runtime monitor: two-index class invariant (icontract) + reference dictionary on RouterInfoCache; wire-level next-hop observer on a real node",
        "text": "RouterInfoCache is driven with every operation sequence up to length 4/5 over learn/forget-router/"
                "forget-destination/renumber on a reduced universe and with random length-300 histories on the full "
                "one; a two-index agreement invariant runs after every public method and all lookups are compared "
                "with a newest-wins reference.  The same kind of history is injected as real I-Am-Router, routed "
                "(SADR) and Network-Number-Is frames into a node on the virtual LAN and the next hop of probe "
                "packets is read from the wire with an independent NPCI decoder.",
        "note": "renumbering onto a network number already in use is excluded; network-layer deletions are API calls (no message triggers them)",
    },
    "C20": {
        "level": "exploration",
        "design_ref": "DESIGN.md 3 C20",
        "technique": "runtime monitor: direct clause-12.24 interpreter + datetime/calendar as oracle on eval(), the matchers and timer-driven objects under a virtual clock",
        "text": "The date matchers are compared with calendar arithmetic on every date of 20 sampled years (quick) / all "
                "of 1900..2154 (thorough) for ~330 pattern/range/week-and-day shapes; random schedules are evaluated "
                "by the real LocalScheduleInterpreter.eval at every minute of sampled days and at every listed time "
                "+-1 min and compared with a direct interpreter, including the promise that the value cannot change "
                "before the reported next transition; real LocalScheduleObjects run on their own timer under the "
                "virtual clock for 2..10 days and presentValue is probed around every transition, midnight and the "
                "edges of the effective period.",
        "note": "TZ=UTC; time values with hundredths 0 only; same-priority overlapping exceptions and unsorted lists are not generated",
    },
    "C04": {
        "level": "fault_enumeration",
        "design_ref": "DESIGN.md 3 C04",
        "technique": "runtime monitor: fault-injecting virtual LAN + virtual clock around two real stacks; counting oracles over boundary events, scheduler heap and a gc census of transaction objects",
        "text": "One confirmed transaction at a time is run between a real client stack (Application.request and IOCB "
                "paths) and a real server stack over a LAN that drops, duplicates, delays or holds frames.  For each "
                "configuration the fault-free trace is recorded, then every single fault at every frame, fault pairs, "
                "random plans, silence from frame k and one-way silence.  Monitors: exactly one outcome event per "
                "request, within a bound computed from the configured timeouts (virtual time), afterwards no live "
                "transaction object anywhere (gc census), no transaction timer in the scheduler, no IOCB queue entry, "
                "and no later frame from the requester carrying that invoke id (independent APCI decoder).",
        "note": "virtual LAN instead of UDP sockets; the bound is deliberately generous (bounded-progress restatement of 'eventually')",
    },
    "C05": {
        "level": "fault_enumeration",
        "design_ref": "DESIGN.md 3 C05",
        "technique": "runtime monitor: byte-equality oracle at the application boundary + wire observer (independent decoder) for sequence/more-follows/window rules + single-fault-repaired predicate",
        "text": "Same runner as C04 with payload-carrying private transfers: every payload that reaches an application "
                "is compared octet for octet with what was submitted (unique token + position dependent content), for "
                "lengths around every segment boundary, windows 1..8 on each side and transfers of 256/257/300 (600) "
                "segments; a wire observer checks consecutive sequence numbers modulo 256, no fresh segment after the "
                "final one and no more unacknowledged segments than the granted window; every single drop, duplicate, "
                "delay or hold-behind-next at every frame must still end in the acknowledgement with the exact payload; "
                "random multi-fault plans must end in exact payload or abort.",
        "note": "window discipline judged only in runs with drop/duplicate faults; a request retried after the request timeout may legitimately be executed twice",
    },
    "C12": {
        "level": "exploration",
        "design_ref": "DESIGN.md 3 C12",
        "technique": "runtime monitor: limits observer on the virtual LAN (independent NPCI/APCI decoder) comparing every frame with what the receiving peer announced; feasibility model for the expected outcome",
        "text": "Client and server stacks with all pairs of max-APDU sizes, max-segments values, segmentation-support "
                "values and proposed windows {1,2,8,127} exchange private transfers whose request and response lengths "
                "sit around every resulting boundary, with and without capabilities learned through I-Am.  Every frame "
                "is decoded independently: APDU length against the limit the receiver announced (request header for "
                "responses, I-Am for requests), segmentation only where accepted, response segments within the "
                "request's max-segments, windows within 1..127 and not above the proposal; when the limits make a "
                "message impossible the requester must get an abort, when they allow it the acknowledgement.",
        "note": "fault-free LAN; for responses the finer I-Am value is accepted when it rounds to the request's max-response code",
    },
    "C11": {
        "level": "exploration",
        "design_ref": "DESIGN.md 3 C11",
        "technique": "runtime monitor: unique tokens per request, token matching and invoke-id interval-overlap tests over the recorded boundary history; spoofing station injecting forged replies",
        "text": "Up to three real client stacks and four real server stacks share one virtual LAN; each client keeps up "
                "to 40 (and, for exhaustion, 300) requests outstanding, servers answer out of order after think times "
                "longer than the request timeout so real retransmissions arrive while the original is being processed, "
                "clients use equal invoke ids by construction, a spoofing station injects replies from foreign "
                "addresses, with ids that are not live, replays after completion and stray segment-acks/aborts.  "
                "Every confirmation must carry the token of the request with that peer and invoke id, no two live "
                "requests of a client to a peer may share an id, no request may be confirmed twice or not at all, and "
                "no request may be indicated to a server application twice while unanswered.",
        "note": "forged frames with a live (peer, invoke id) pair are indistinguishable from genuine ones and are not injected",
    },
    "C10": {
        "level": "exploration",
        "design_ref": "DESIGN.md 3 C10",
        "technique": "runtime monitor: mutation/garbage injection into a real device stack; independent decoder classifies each injected frame, counting oracle over replies keyed by (sender, invoke id), residue census, differential read-back",
        "text": "A real device application with ReadProperty, WriteProperty, ReadPropertyMultiple, SubscribeCOV, "
                "DeviceCommunicationControl and Who-Is services receives valid frames built with independent encoders, "
                "every single-octet substitution, truncation and insertion of them, and random octets at frame, NPDU "
                "and APDU-parameter level, in batches handed over with core.deferred() like the UDP director does, "
                "guarded by valid requests before and after.  For every frame the independent decoder classifies as a "
                "well-framed unsegmented confirmed request exactly one reply with its invoke id must appear on the LAN; "
                "at quiescence no transaction object or transaction timer may be left; a subsequent ReadProperty must "
                "return the object's actual value.",
        "note": "VLAN device (no BVLL under it); replies are unsegmented in this workload; after an effective DeviceCommunicationControl-disable the batch's later expectations are void",
    },
    "C06": {
        "level": "exploration",
        "design_ref": "DESIGN.md 3 C06",
        "technique": "runtime monitor: graph reachability model + unique tokens for exactly-once delivery, actual reply round trips, per-router hop-count/no-echo observer with an independent NPCI decoder; injected delay of path-discovery answers on the fault LAN",
        "text": "Random tree internetworks (2..8 networks, multi-port routers, multi-hop, stations that know or do not know "
                "their network number, router announcements on/off) are assembled from real NetworkServiceAccessPoint/"
                "NetworkServiceElement instances on virtual LANs.  For every source x destination kind x destination, cold "
                "(Who-Is-Router discovery, parked packets) then warm, the set of stations whose upper layer receives the "
                "token must equal the reachability model exactly once each; every recipient replies to the source address "
                "it was shown and the reply must reach the originator exactly once; every forwarded copy is decoded "
                "independently: hop count one lower than the incoming copy, never emitted on the arrival network, never "
                "forwarded at hop count 0; rings of 3..5 routers bound the frames of a global broadcast.",
        "note": "router discovery traffic in cyclic topologies (re-originated per hop, no hop count) is outside the statement and not generated",
    },
    "C13": {
        "level": "exploration",
        "design_ref": "DESIGN.md 3 C13",
        "technique": "runtime monitor: unique broadcast tokens + Annex-J expectation model over real BIPSimple/BIPBBMD/BIPForeign instances on a virtual IP internetwork; registration intervals reconstructed from the wire with an independent BVLC parser; virtual-time probes across every edge; countdown oracle over successive Read-FDT answers (reported remaining time vs. elapsed virtual time)",
        "text": "Random layouts of 1..5 subnets with BBMDs, ordinary nodes and foreign devices (full and partial tables, "
                "one-hop and two-hop entries) are assembled from the real B/IP classes; every node broadcasts a unique "
                "token and the deliveries above each B/IP layer must be at most once per node, never at the "
                "originator, with the originator as source, and complete on well-formed layouts.  Foreign-device life "
                "cycles (TTL 1..300 s) are driven under the virtual clock: while a registration acknowledged on the wire "
                "is within its TTL the device must be served in both directions and listed by Read-FDT, renewals must "
                "come within the TTL, and after TTL+30 s+1 s without renewal, after an acknowledged Delete-FDT-Entry and "
                "30 s after unregistration it must be neither served nor listed - probed every second across each edge.",
        "note": "between TTL and TTL+grace either behaviour is accepted (the grace constant of the implementation is not assumed)",
    },
    "C17": {
        "level": "exploration",
        "design_ref": "DESIGN.md 3 C17",
        "technique": "runtime monitor: 16-slot reference array + timer model compared after every command with presentValue/priorityArray read directly and over the wire",
        "text": "All command sequences up to length 4/5 over 4 priorities x 3 values x {write, relinquish} on an analog and "
                "a binary commandable object, and random histories of length 100 over all 16 priorities (plus writes "
                "without priority, invalid priorities 0/17/-1/255/100) for each constructible commandable class, are "
                "applied through direct WriteProperty calls and through WriteProperty requests to a real device stack; "
                "after every command presentValue, all sixteen slots and the relinquish default are compared with a "
                "reference array, also via ReadProperty over the LAN.  Binary objects with minimum on/off times 0..10 s "
                "are driven under the virtual clock against a reference hold/release timer model.",
        "note": "DateTimeValueCmdObject / DateTimePatternValueCmdObject cannot be instantiated at all (constructor raises) and are counted as cannot_build",
    },
    "C16": {
        "level": "exploration",
        "design_ref": "DESIGN.md 3 C16",
        "technique": "runtime monitor: reference subscription table + change detector stepped in parallel with a real device and real subscriber stacks under the virtual clock; notifications recorded at the subscribers' application boundary",
        "text": "Random timelines of subscribe / re-subscribe (changed lifetime incl. 0 and absent, changed confirmed flag) "
                "/ cancel from 1..3 subscriber stacks x 2 process ids on analog, binary, multi-state and pulse-converter "
                "objects are interleaved with direct and over-the-wire writes (sub-increment, exact increment, returns to "
                "the old value, bursts within one instant), status-flag writes and virtual-time steps across every expiry. "
                "After every step the notifications that reached the subscribers must be exactly those the reference "
                "table demands: acknowledgement + one initial notification, one notification per live subscription per "
                "qualifying change, right kind (latest subscription), current values and flags, remaining time within "
                "+-1 s, none after cancellation or expiry; activeCovSubscriptions read over the wire must equal the live set.",
        "note": "two tolerances (per-object vs per-subscriber 'last reported value'; coalescing of writes within one instant) keep the oracle within the statement",
    },
    "C03": {
        "level": "exploration",
        "design_ref": "DESIGN.md 3 C03",
        "technique": "runtime monitor: schema-driven generator over all registered PDUs and constructed types; self-consistency oracle through the production encode/decode path, independent TLV well-formedness of every stream, Annex-F vectors derived with the independent reference codec",
        "text": "For each of the 58 registered service PDUs and ~170 Sequence/Choice types every presence pattern of optional "
                "elements (all 2^k for k<=6), every choice alternative, list lengths 0..3 and nesting to depth 4+ are "
                "generated with leaves from the C01 boundary pools, encoded through service class -> typed PDU -> APDU "
                "-> octets, parsed with the independent TLV parser (canonical, balanced), decoded through APDU.decode -> "
                "registry -> class.decode, compared structurally (absent optional != empty list) and re-encoded; an "
                "appended tag must be rejected.  Twenty worked examples in the style of Annex F are checked in both "
                "directions against octets derived from the worded values with the independent reference codec.",
        "note": "structural validity only; Annex-F hex transcribed from memory is used only where it agrees with the derivation (17 of 17 given)",
    },
    "C15": {
        "level": "exploration",
        "design_ref": "DESIGN.md 3 C15",
        "technique": "runtime monitor: model dictionary of the device's property store + before/after snapshots + RPM==RP differential, driven by a real client stack against a real device carrying every registered object type",
        "text": "A device stack carries one instance of each of the 62 registered object types with properties populated "
                "from their datatypes by the schema generator; a client stack sends random ReadProperty, WriteProperty "
                "(right- and wrong-typed values, array index classes 0/1..n/n+1/large, priorities, read-only, absent and "
                "unknown properties, unknown objects) and ReadPropertyMultiple requests (explicit, all/required/optional).  "
                "Every read is compared with the device's property store, every acknowledged write is read back and must "
                "have changed only its target, every refused write must leave a full snapshot of all properties unchanged "
                "and carry an error of a matching family, and every RPM element must equal what a ReadProperty request for "
                "the same reference returns at that moment.",
        "note": "values are structurally valid only; an application Null written to a non-commandable property is outside the generated domain",
    },
}

NOT_APPLICABLE = {pid: _PENDING for pid in ("C%02d" % i for i in range(1, 21)) if pid not in CHECKS}
