"""Per-property metadata from which MANIFEST.json is generated (tools/gen_manifest.py)."""

HOOKS = {
    "guard": "BACPYPES_VERIF",
    "enable": "no source hooks: ./check exports BACPYPES_VERIF=1 and PYTHONPATH=/repo/py34; monitors are attached "
              "to the imported working-tree modules by the harness (attribute wrappers, sys.monitoring, logging "
              "handler, virtual clock on bacpypes.task._time)",
    "baseline_off_cmd": "cd /repo && PYTHONPATH=/repo/py34 /venv/bin/python -m pytest -q -p no:cacheprovider --timeout=900",
    "source_commits": [],
    "add_only": True,
}

NOTES = ("All checks run /venv/bin/python against /repo/py34 (the working tree; the copy in site-packages is never "
         "imported - a check that finds bacpypes elsewhere is inconclusive).  Exit 0 held / 1 violation / 2 "
         "inconclusive.  Known findings and fixed defects: known_findings.txt.  Seeded breaks: seeded/.")

_PENDING = "check not built yet in this revision of /verif (planned in DESIGN.md section 3); runtime monitoring applies"

CHECKS = {
    "C01": {
        "level": "exploration",
        "design_ref": "DESIGN.md 3 C01",
        "technique": "runtime monitor: independent reference codec as oracle on real encode/decode over boundary+random value pools",
        "text": "Every concrete Atomic subclass (about 100 classes) is driven with boundary and random values through the "
                "real constructors, encode, Tag.encode, Tag.decode, app_to_context/context_to_app and decode; each "
                "produced octet string is compared with an independent clause-20.2 reference encoder, each decode "
                "with the model value, and unrepresentable values must be refused.  Held on the cases listed in the "
                "evidence; sampling of the 2^32 / 2^64 spaces, exhaustive on the small ones.",
        "note": "trusts rv/refcodec.py (written from the standard, cross-checked on Annex F octets) and struct's IEEE-754 packing",
    },
}

NOT_APPLICABLE = {pid: _PENDING for pid in ("C%02d" % i for i in range(1, 21)) if pid not in CHECKS}
