"""
One confirmed transaction between two real stacks over the fault LAN, with
the monitors shared by C04 (exactly one outcome, bounded, no residue), C05
(exact payload, wire rules, single fault repaired) and C12 (limits respected).
"""

import math

from . import common

common.bootstrap()

from .vclock import CLOCK, StepBudgetExceeded
from .fnet import FaultNet, Plan, DELIVER, DROP, DUP, DELAY, HOLD
from .stacks import (Stack, DirectApp, IOApp, payload_for, transaction_census, heap_transaction_timers,
                     decode_frame, enc_len)
from . import wire as W

from bacpypes import appservice as _as

STATE_SEEN = set()          # (role, state, next state) triples observed through SSM.set_state
_hooked = [False]


def hook_states():
    """record state transitions of the real transaction state machines (coverage evidence)"""
    if _hooked[0]:
        return
    _hooked[0] = True
    orig = _as.SSM.set_state

    def set_state(self, newState, timer=0):
        STATE_SEEN.add(("client" if isinstance(self, _as.ClientSSM) else "server", self.state, newState))
        return orig(self, newState, timer)
    _as.SSM.set_state = set_state


class Cfg:
    """one scenario configuration (plain data)"""

    def __init__(self, **kw):
        self.c_seg = "segmentedBoth"
        self.s_seg = "segmentedBoth"
        self.c_max = 1024
        self.s_max = 1024
        self.c_maxsegs = 16
        self.s_maxsegs = 16
        self.c_win = 2
        self.s_win = 2
        self.retries = 3
        self.t_out = 3.0
        self.t_seg = 2.0
        self.t_app = 3.0
        self.req_size = 10
        self.rsp_size = 10
        self.behaviour = "ack"      # ack | error | reject | abort | silent | simple | raise-error | raise-reject | raise-abort
        self.think = 0.0
        self.path = "direct"        # direct | iocb
        self.service = "cpt"        # cpt | wp
        self.token = 1001
        self.iam = False            # hand the peers' I-Am to each other's device info cache first
        self.s_path = None          # path limit (DeviceInfo.maxNpduLength) the client recorded for the server; needs iam
        self.c_path = None          # ... and the server for the client
        self.followups = []         # requests submitted when the first one completes (IOCB path): [(how, behaviour, req_size, rsp_size)],
                                    # how = 'deferred' (through core.deferred from the callback) | 'direct' (inside the callback)
        self.client_dcc = None      # the requesting device's own DeviceCommunicationControl state ('disable' | 'disableInitiation')
        self.background = []        # delays of unrelated one-shot timers installed between the first request and the further ones
        self.extra = []             # further requests submitted at the same instant: [(behaviour, service, req_size, rsp_size)]
        self.__dict__.update(kw)

    def describe(self):
        return dict(self.__dict__)

    def bound(self, injected=0.0):
        """generous liveness-as-bounded-progress bound in virtual seconds (DESIGN C04)"""
        segsz = max(1, min(self.c_max, self.s_max))
        s_req = max(1, math.ceil((self.req_size + 20) / segsz))
        s_rsp = max(1, math.ceil((self.rsp_size + 20) / segsz))
        r = self.retries + 1
        return r * self.t_out + (s_req + s_rsp + 2) * r * 4 * self.t_seg + injected + self.t_app + self.think + 1.0


class Result:
    pass


def run_scenario(cfg, plan=None, extra_after=None, max_steps=400000):
    """execute one transaction; returns a Result with the recorded history and the monitor findings"""
    hook_states()
    CLOCK.reset()
    events = []
    lan = FaultNet("lan", plan or Plan())
    dev_c = dict(segmentationSupported=cfg.c_seg, maxApduLengthAccepted=cfg.c_max, maxSegmentsAccepted=cfg.c_maxsegs,
                 numberOfApduRetries=cfg.retries, apduTimeout=int(cfg.t_out * 1000), apduSegmentTimeout=int(cfg.t_seg * 1000))
    dev_s = dict(segmentationSupported=cfg.s_seg, maxApduLengthAccepted=cfg.s_max, maxSegmentsAccepted=cfg.s_maxsegs,
                 numberOfApduRetries=cfg.retries, apduTimeout=int(cfg.t_out * 1000), apduSegmentTimeout=int(cfg.t_seg * 1000))
    client = Stack(lan, 1, events, "client", IOApp if cfg.path == "iocb" else DirectApp, window=cfg.c_win,
                   app_timeout=int(cfg.t_app * 1000), **dev_c)
    server = Stack(lan, 2, events, "server", DirectApp, window=cfg.s_win, app_timeout=int(cfg.t_app * 1000), **dev_s)
    server.app.behaviour[cfg.token] = (cfg.behaviour, cfg.rsp_size, cfg.think)
    res = Result()
    res.cfg = cfg
    res.lan = lan
    res.events = events
    res.client = client
    res.server = server
    res.findings = []           # (key, detail)
    res.budget_exceeded = None
    try:
        CLOCK.settle()
        if cfg.iam:
            exchange_iam(client, server)
            for owner, peer, limit in ((client, server, cfg.s_path), (server, client, cfg.c_path)):
                if limit is not None:
                    owner.app.deviceInfoCache.get_device_info(peer.address).maxNpduLength = limit
        lan.frames_before = len(lan.frames)
        t0 = CLOCK.now
        if cfg.service == "cpt":
            req = client.cpt_request(2, cfg.token, cfg.req_size)
        elif cfg.service == "unencodable":
            # a request the application forgot a required parameter of: it cannot be put on the wire at all
            from bacpypes.apdu import ReadPropertyRequest
            from bacpypes.pdu import Address as _A
            req = ReadPropertyRequest(propertyIdentifier="presentValue", destination=_A(2))
        else:
            req = client.wp_request(2, cfg.token)
        res.submit_error = None
        res.first_refused = False
        if cfg.client_dcc:
            client.smap.dccEnableDisable = cfg.client_dcc
        try:
            res.iocb = client.send(req, cfg.token)
        except Exception as err:
            res.submit_error = err
            res.first_refused = True
        res.invoke = getattr(req, "apduInvokeID", None)
        res.t0 = t0
        res.extra_tokens = []
        res.background = []
        for d in cfg.background:
            from bacpypes.task import FunctionTask
            bt = FunctionTask(lambda: None)
            bt.install_task(delta=d)
            res.background.append(bt)
        for k, (beh, svc, rq, rp) in enumerate(cfg.extra):
            tok = cfg.token + 1 + k
            server.app.behaviour[tok] = (beh, rp, 0.0)
            r2 = client.cpt_request(2, tok, rq) if svc == "cpt" else client.wp_request(2, tok)
            try:
                client.send(r2, tok)
                res.extra_tokens.append(tok)
            except Exception as err:
                res.submit_error = err
        if cfg.followups and cfg.path == "iocb" and res.iocb is not None:
            from bacpypes.core import deferred

            def follow(iocb, res=res):
                for k, (how, beh, rq, rp) in enumerate(cfg.followups):
                    tok = cfg.token + 100 + k
                    server.app.behaviour[tok] = (beh, rp, 0.0)
                    r2 = client.cpt_request(2, tok, rq)
                    res.extra_tokens.append(tok)
                    if how == "deferred":
                        deferred(client.send, r2, tok)
                    else:
                        client.send(r2, tok)
            res.iocb.add_callback(follow)
        injected = sum(a[1] for a in (plan.table.values() if plan else []) if isinstance(a, tuple) and a[0] == DELAY)
        injected += getattr(plan, "latency_budget", 0.0) if plan else 0.0
        bound = cfg.bound(injected) * (1 + len(cfg.extra) + len(cfg.followups))
        res.bound = bound
        CLOCK.drive(until=t0 + bound, max_steps=max_steps)
        res.t_bound_end = CLOCK.now
        # whatever was decided by now is the outcome; keep going to see what else happens
        CLOCK.drive(until=t0 + bound + (extra_after if extra_after is not None else 3 * bound), max_steps=max_steps)
        lan.flush_held()
        CLOCK.drive(duration=bound, max_steps=max_steps)
    except StepBudgetExceeded as err:
        res.budget_exceeded = str(err)
    for bt in getattr(res, "background", []):
        if bt.isScheduled:
            bt.suspend_task()
    if lan.overflow:
        res.budget_exceeded = "more than %d frames for one transaction" % lan.frame_cap
    return res


def exchange_iam(a, b):
    """tell each stack the other's capabilities the documented way (DeviceInfoCache.iam_device_info)"""
    from bacpypes.apdu import IAmRequest
    for src, dst in ((a, b), (b, a)):
        iam = IAmRequest(iAmDeviceIdentifier=src.device.objectIdentifier,
                         maxAPDULengthAccepted=src.device.maxApduLengthAccepted,
                         segmentationSupported=src.device.segmentationSupported,
                         vendorID=src.device.vendorIdentifier)
        iam.pduSource = src.address
        dst.app.deviceInfoCache.iam_device_info(iam)


# ----------------------------------------------------------------------
# C04 monitor
# ----------------------------------------------------------------------

def outcomes_of(res):
    """outcome events delivered to the requesting application for the one request of the scenario"""
    if res.cfg.path == "iocb":
        return [e for e in res.events if e["who"] == "client" and e["ev"] == "iocb-callback"]
    return [e for e in res.events if e["who"] == "client" and e["ev"] == "confirmation"]


def residue(res, report, suffix=""):
    """residue on the requesting stack (and, at the horizon, anywhere)"""
    cfg = res.cfg
    live = transaction_census()
    if live:
        roles = sorted("%s:%s" % (type(x).__name__, _as.SSM.transactionLabels[x.state]) for x in live)
        report("transaction-left-after-outcome/" + roles[0] + suffix, {"live": roles, "listed_client": len(res.client.smap.clientTransactions),
                                                                      "listed_server": len(res.server.smap.serverTransactions),
                                                                      "error": repr(res.submit_error)[:100] if suffix else None})
    timers = heap_transaction_timers()
    if timers:
        report("transaction-timer-left-in-scheduler" + suffix, {"n": len(timers)})
    if CLOCK.tm.tasks and not timers:
        report("scheduler-not-idle-after-transaction" + suffix, {"tasks": [type(t[2]).__name__ for t in CLOCK.tm.tasks][:4]})
    if cfg.path == "iocb" and res.client.app.queue_by_address:
        report("iocb-queue-entry-left" + suffix, {"queues": [str(k) for k in res.client.app.queue_by_address]})
    if res.client.smap.clientTransactions or res.server.smap.serverTransactions or res.client.smap.serverTransactions:
        report("transaction-list-not-empty" + suffix, {"client": len(res.client.smap.clientTransactions),
                                                       "server": len(res.server.smap.serverTransactions)})


def check_c04(res, report):
    """report(key, detail) for every refuting observation"""
    cfg = res.cfg
    if res.budget_exceeded:
        report("transaction-never-quiesces", {"error": res.budget_exceeded})
        return
    outs = outcomes_of(res)
    expected = 1 + len(getattr(res, "extra_tokens", []))
    if res.submit_error is not None:
        # a refusal at submission is itself the (single) outcome told to the caller
        mine = [o_ for o_ in outs if o_.get("token") == cfg.token] if cfg.path == "iocb" else outs
        if getattr(res, "first_refused", False) and getattr(res, "extra_tokens", []) and cfg.path == "direct":
            expected -= 1           # the other requests of the scenario were accepted and have their own outcomes
        elif mine:
            report("submission-refused-and-outcome-delivered", {"error": repr(res.submit_error)})
            return
        else:
            # the refusal was the outcome: nothing of the request may stay behind either
            residue(res, report, "/after-refused-submission")
            return
    if len(outs) < expected:
        key = "no-outcome-delivered" if expected == 1 else "queued-request-without-outcome" if cfg.path == "iocb" else "concurrent-request-without-outcome"
        report(key, {"frames": len(res.lan.frames), "outcomes": len(outs), "requests": expected, "swallowed": CLOCK.swallowed.records[:2],
                     "escapes": res.lan.escapes[:2]})
        return
    if len(outs) > expected:
        report("outcome-delivered-more-than-once", {"outcomes": [(o["t"] - res.t0, o.get("outcome")) for o in outs], "requests": expected})
        return
    if cfg.path == "iocb" and expected > 1:
        toks = sorted(o.get("token") for o in outs)
        if toks != sorted([cfg.token] + res.extra_tokens):
            report("outcome-delivered-more-than-once", {"tokens": toks})
            return
    if cfg.path == "iocb":
        crossed = [(o.get("token"), o.get("answer_token")) for o in outs if o.get("answer_token") is not None and o.get("answer_token") != o.get("token")]
        if crossed:
            report("request-completed-with-the-answer-to-another-request", {"request_and_answer_tokens": crossed})
            return
    o = outs[-1]
    t_out = o["t"]
    if expected == 1 and cfg.behaviour in ("abort", "raise-abort") and not res.lan.plan.applied and o.get("outcome") == "abort" and o.get("reason") == 65:
        # nothing was lost: the abort the requester is told about has to be the server's, not its own "no response" after
        # having repeated (and the server having executed) the request several times
        n_exec = sum(1 for e in res.events if e["ev"] == "indication" and e["who"] == "server")
        report("server-abort-does-not-reach-the-requester", {"outcome_after": t_out - res.t0, "request_executed_times": n_exec})
        return
    if t_out - res.t0 > res.bound + 1e-6:
        report("outcome-later-than-bound", {"after": t_out - res.t0, "bound": res.bound})
    if cfg.path == "iocb":
        # the direct confirmation events of an IOApp are recorded too: exactly one as well
        confs = [e for e in res.events if e["who"] == "client" and e["ev"] == "confirmation"]
        if len(confs) > expected:
            report("confirmation-delivered-more-than-once", {"n": len(confs), "requests": expected})
    residue(res, report)
    # no further packets from the requester for this transaction after its outcome
    late = []
    for rec in res.lan.frames[res.lan.frames_before:]:
        if rec["t"] > t_out and str(rec["src"]) == "1":
            d = decode_frame(rec)
            ap = d.get("apci")
            if ap and ap.get("invoke") == res.invoke and ap["type"] in (W.CONFIRMED, W.SEGMENT_ACK, W.ABORT):
                late.append((rec["t"] - t_out, ap["type"]))
    if late and expected == 1:
        report("requester-sends-for-finished-transaction", {"late_frames": late[:4]})


# ----------------------------------------------------------------------
# C05 monitor
# ----------------------------------------------------------------------

def check_payloads(res, report):
    """what reached an application is octet for octet what the sender submitted"""
    cfg = res.cfg
    want_req = payload_for(cfg.token, cfg.req_size) if cfg.req_size is not None else b""
    want_rsp = payload_for(cfg.token, cfg.rsp_size) if cfg.rsp_size is not None else b""
    n_ind = 0
    for e in res.events:
        if e["ev"] == "indication" and e["who"] == "server" and e.get("token") == cfg.token:
            n_ind += 1
            if "payload_error" in e:
                report("request-payload-not-decodable", {"error": e["payload_error"]})
            elif bytes(e["payload"]) != want_req:
                report(payload_diff_key("request", bytes(e["payload"]), want_req), {"got_len": len(e["payload"]), "want_len": len(want_req)})
        if e["ev"] == "confirmation" and e["who"] == "client" and e.get("outcome") == "complex-ack" and cfg.service == "cpt":
            if "payload_error" in e:
                report("response-payload-not-decodable", {"error": e["payload_error"]})
            elif e.get("token") != cfg.token:
                report("response-carries-another-token", {"got": e.get("token")})
            elif bytes(e["payload"]) != want_rsp:
                report(payload_diff_key("response", bytes(e["payload"]), want_rsp), {"got_len": len(e["payload"]), "want_len": len(want_rsp)})
    return n_ind


def payload_diff_key(which, got, want):
    if len(got) < len(want) and want.startswith(got):
        return which + "-payload-truncated"
    if len(got) > len(want):
        return which + "-payload-longer-than-submitted"
    if sorted(got) == sorted(want):
        return which + "-payload-reordered"
    return which + "-payload-corrupted"


def check_wire(res, report, stats=None):
    """sequence numbers, more-follows and window discipline of every segmented transfer on the wire"""
    transfers = {}
    frames = res.lan.frames[res.lan.frames_before:]
    window_checkable = all(r.get("action") in (DELIVER, DROP, DUP) for r in frames)
    for rec in frames:
        d = decode_frame(rec)
        ap = d.get("apci")
        if not ap:
            continue
        if ap["type"] in (W.CONFIRMED, W.COMPLEX_ACK) and ap.get("seg"):
            key = (d["src"], d["dst"], ap["invoke"], ap["type"])
            tr = transfers.setdefault(key, {"next": 0, "last_seen_final": False, "acked": -1, "win": 1, "proposed": None, "segments": 0})
            tr["segments"] += 1
            seq = ap["seq"]
            if seq == 0 and ap["mor"] and tr["last_seen_final"]:
                # the whole message is sent again (request retry after the request timeout): a new transfer
                segs = tr["segments"]
                tr.update({"next": 0, "last_seen_final": False, "acked": -1, "win": 1, "proposed": None, "restarts": tr.get("restarts", 0) + 1})
            if seq == tr["next"] % 256 and not (tr["last_seen_final"]):
                idx = tr["next"]
                tr["next"] += 1
                if idx == 0:
                    tr["proposed"] = ap["win"]
                if not ap["mor"]:
                    tr["last_seen_final"] = True
            else:
                # must be a retransmission of something sent before
                cand = [i for i in range(max(0, tr["next"] - 255), tr["next"]) if i % 256 == seq]
                if not cand:
                    report("sequence-number-not-consecutive", {"transfer": key, "seq": seq, "expected": tr["next"] % 256, "frame": rec["n"]})
                    continue
                idx = cand[-1]
            if window_checkable and idx > tr["acked"] + tr["win"]:
                report("more-unacknowledged-segments-than-window", {"transfer": key, "segment_index": idx, "acked": tr["acked"],
                                                                    "window": tr["win"], "frame": rec["n"]})
            if not (1 <= ap["win"] <= 127):
                report("window-field-out-of-range", {"transfer": key, "win": ap["win"]})
        elif ap["type"] == W.SEGMENT_ACK:
            # an ack from the receiver of a transfer: srv flag tells which side sent it
            ttype = W.CONFIRMED if ap["srv"] else W.COMPLEX_ACK
            key = (d["dst"], d["src"], ap["invoke"], ttype)
            tr = transfers.get(key)
            if tr is None:
                continue
            if rec.get("action") in (DELIVER, DUP):
                cand = [i for i in range(max(-1, tr["next"] - 256), tr["next"]) if i % 256 == ap["seq"] and i >= tr["acked"]]
                if cand:
                    tr["acked"] = cand[-1]
                tr["win"] = ap["win"]
            if not (1 <= ap["win"] <= 127):
                report("window-field-out-of-range", {"transfer": key, "win": ap["win"], "in": "segment-ack"})
            if tr["proposed"] is not None and ap["win"] > tr["proposed"]:
                report("actual-window-exceeds-proposed", {"transfer": key, "actual": ap["win"], "proposed": tr["proposed"]})
    if stats is not None:
        stats["segmented_transfers"] = stats.get("segmented_transfers", 0) + len(transfers)
        stats["segments"] = stats.get("segments", 0) + sum(t["segments"] for t in transfers.values())
        stats["max_segments_in_one_transfer"] = max(stats.get("max_segments_in_one_transfer", 0), max([t["next"] for t in transfers.values()] or [0]))
    return transfers


def expected_outcome(cfg):
    return {"ack": "complex-ack", "error": "error", "reject": "reject", "abort": "abort", "silent": "abort", "simple": "simple-ack",
            "raise-error": "error", "raise-reject": "reject", "raise-abort": "abort"}[cfg.behaviour]


def outcome_name(o):
    return o.get("outcome")
