"""
Reference codec written from ASHRAE 135 clause 20.2 -- shares no code with
bacpypes.  Tag TLV build/parse and primitive content encoders.

Tag classes: 'app', 'ctx', 'open', 'close'.
"""

import struct


class Unrepresentable(Exception):
    """the value has no encoding in the standard's form"""


class Malformed(Exception):
    """the octets are not a well formed tag stream"""


APP, CTX, OPEN, CLOSE = "app", "ctx", "open", "close"

# application tag numbers
NULL, BOOLEAN, UNSIGNED, INTEGER, REAL, DOUBLE, OCTETS, CHARS, BITS, ENUM, DATE, TIME, OBJID = range(13)


# ----------------------------------------------------------------------
# tag framing (20.2.1)
# ----------------------------------------------------------------------

def tlv_header(cls, number, length_or_value):
    """initial octet(s) of a tag.  For opening/closing tags the LVT field is
    6/7, for application Boolean it is the value."""
    if not (0 <= number <= 254):
        raise Unrepresentable("tag number %r" % (number,))
    out = bytearray()
    first = 0
    if cls in (CTX, OPEN, CLOSE):
        first |= 0x08
    if number <= 14:
        first |= number << 4
    else:
        first |= 0xF0
    if cls == OPEN:
        first |= 6
    elif cls == CLOSE:
        first |= 7
    elif length_or_value <= 4:
        first |= length_or_value
    else:
        first |= 5
    out.append(first)
    if number > 14:
        out.append(number)
    if cls in (APP, CTX) and length_or_value > 4:
        n = length_or_value
        if n <= 253:
            out.append(n)
        elif n <= 65535:
            out.append(254)
            out += struct.pack(">H", n)
        elif n <= 0xFFFFFFFF:
            out.append(255)
            out += struct.pack(">L", n)
        else:
            raise Unrepresentable("length %r" % (n,))
    return bytes(out)


def tlv_encode(tags):
    """tags: iterable of (cls, number, lvt, data).  For app Boolean lvt is the
    value and data is empty; otherwise lvt must be len(data)."""
    out = bytearray()
    for cls, number, lvt, data in tags:
        if cls in (OPEN, CLOSE):
            out += tlv_header(cls, number, 0)
        elif cls == APP and number == BOOLEAN:
            out += tlv_header(cls, number, lvt)
        else:
            if lvt != len(data):
                raise Unrepresentable("length field %r for %d octets" % (lvt, len(data)))
            out += tlv_header(cls, number, len(data))
            out += data
    return bytes(out)


def tlv_parse(octets, strict=True):
    """octets -> list of (cls, number, lvt, data).  Raises Malformed when the
    stream is truncated or (strict) uses a form the standard does not allow."""
    octets = bytes(octets)
    i, n = 0, len(octets)
    tags = []
    while i < n:
        first = octets[i]
        i += 1
        number = first >> 4
        cbit = (first >> 3) & 1
        lvt = first & 7
        if number == 15:
            if i >= n:
                raise Malformed("truncated tag number")
            number = octets[i]
            i += 1
            if strict and number == 255:
                raise Malformed("reserved tag number 255")
        if cbit and lvt == 6:
            tags.append((OPEN, number, 0, b""))
            continue
        if cbit and lvt == 7:
            tags.append((CLOSE, number, 0, b""))
            continue
        if not cbit and lvt in (6, 7):
            raise Malformed("application tag with LVT %d" % lvt)
        if not cbit and number == BOOLEAN:
            if lvt > 1:
                raise Malformed("boolean with LVT %d" % lvt)
            tags.append((APP, number, lvt, b""))
            continue
        if lvt == 5:
            if i >= n:
                raise Malformed("truncated length")
            lvt = octets[i]
            i += 1
            if lvt == 254:
                if i + 2 > n:
                    raise Malformed("truncated length")
                lvt = struct.unpack(">H", octets[i:i + 2])[0]
                i += 2
            elif lvt == 255:
                if i + 4 > n:
                    raise Malformed("truncated length")
                lvt = struct.unpack(">L", octets[i:i + 4])[0]
                i += 4
        if i + lvt > n:
            raise Malformed("truncated data")
        tags.append((CTX if cbit else APP, number, lvt, octets[i:i + lvt]))
        i += lvt
    return tags


def tlv_is_canonical(octets):
    """True when octets are exactly what tlv_encode produces for their parse"""
    try:
        return tlv_encode(tlv_parse(octets)) == bytes(octets)
    except (Malformed, Unrepresentable):
        return False


# ----------------------------------------------------------------------
# primitive contents (20.2.2 ... 20.2.14)
# ----------------------------------------------------------------------

def enc_unsigned(v):
    if not isinstance(v, int) or isinstance(v, bool) or v < 0:
        raise Unrepresentable("unsigned %r" % (v,))
    n = max(1, (v.bit_length() + 7) // 8)
    return v.to_bytes(n, "big")


def dec_unsigned(b):
    if len(b) == 0:
        raise Malformed("empty unsigned")
    return int.from_bytes(b, "big")


def enc_signed(v):
    if not isinstance(v, int) or isinstance(v, bool):
        raise Unrepresentable("integer %r" % (v,))
    n = 1
    while not (-(1 << (8 * n - 1)) <= v < (1 << (8 * n - 1))):
        n += 1
    return v.to_bytes(n, "big", signed=True)


def dec_signed(b):
    if len(b) == 0:
        raise Malformed("empty integer")
    return int.from_bytes(b, "big", signed=True)


def enc_real(v):
    try:
        return struct.pack(">f", v)
    except (OverflowError, struct.error):
        raise Unrepresentable("real %r" % (v,))


def enc_double(v):
    return struct.pack(">d", v)


def enc_bits(bits):
    bits = list(bits)
    for b in bits:
        if b not in (0, 1):
            raise Unrepresentable("bit %r" % (b,))
    unused = (8 - len(bits) % 8) % 8
    out = bytearray([unused])
    padded = bits + [0] * unused
    for i in range(0, len(padded), 8):
        x = 0
        for b in padded[i:i + 8]:
            x = (x << 1) | b
        out.append(x)
    return bytes(out)


def dec_bits(b):
    if len(b) == 0:
        raise Malformed("empty bit string")
    unused = b[0]
    if unused > 7 or (len(b) == 1 and unused):
        raise Malformed("unused count")
    bits = []
    for x in b[1:]:
        bits.extend((x >> (7 - k)) & 1 for k in range(8))
    return bits[:len(bits) - unused] if unused else bits


def enc_chars(s):
    try:
        return b"\x00" + s.encode("utf-8")
    except UnicodeEncodeError:
        raise Unrepresentable("string")


def enc_quad(t):
    """date / time: four octets"""
    if len(t) != 4:
        raise Unrepresentable("four fields required")
    for x in t:
        if not isinstance(x, int) or isinstance(x, bool) or not (0 <= x <= 255):
            raise Unrepresentable("field %r" % (x,))
    return bytes(t)


def enc_objid(objtype, instance):
    if not isinstance(objtype, int) or not isinstance(instance, int):
        raise Unrepresentable("object identifier")
    if not (0 <= objtype <= 1023) or not (0 <= instance <= 0x3FFFFF):
        raise Unrepresentable("object identifier (%r, %r)" % (objtype, instance))
    return struct.pack(">L", (objtype << 22) | instance)


def dec_objid(b):
    if len(b) != 4:
        raise Malformed("object identifier length")
    w = struct.unpack(">L", b)[0]
    return (w >> 22, w & 0x3FFFFF)


def encode_primitive(kind, v):
    """kind: application tag number.  Returns the content octets (for Boolean
    the single octet 0/1 used by the *context* form; the application form
    carries the value in the LVT field)."""
    if kind == NULL:
        return b""
    if kind == BOOLEAN:
        return b"\x01" if v else b"\x00"
    if kind in (UNSIGNED, ENUM):
        return enc_unsigned(v)
    if kind == INTEGER:
        return enc_signed(v)
    if kind == REAL:
        return enc_real(v)
    if kind == DOUBLE:
        return enc_double(v)
    if kind == OCTETS:
        return bytes(v)
    if kind == CHARS:
        return enc_chars(v)
    if kind == BITS:
        return enc_bits(v)
    if kind in (DATE, TIME):
        return enc_quad(v)
    if kind == OBJID:
        return enc_objid(*v)
    raise ValueError(kind)


def app_tag_octets(kind, v):
    """complete application-tagged encoding of a primitive"""
    content = encode_primitive(kind, v)
    if kind == BOOLEAN:
        return tlv_encode([(APP, BOOLEAN, 1 if v else 0, b"")])
    return tlv_encode([(APP, kind, len(content), content)])


def ctx_tag_octets(kind, v, number):
    content = encode_primitive(kind, v)
    return tlv_encode([(CTX, number, len(content), content)])
