"""
Schema-driven value generator / normaliser for bacpypes constructed types
(DESIGN.md C03, also used by C15 to populate objects).

Values are generated in the representation the library's own encoders expect
for an element of that class:
    Atomic            -> plain python value
    AnyAtomic         -> Atomic instance
    SequenceOf/ListOf -> python list (elements in element representation)
    ArrayOf           -> ArrayOf instance
    Sequence / Choice -> instance
    Any               -> Any instance (holding the tags of some generated value)
norm() maps a value (generated or decoded) to nested tuples for comparison.
"""

import math
import struct
import inspect
import importlib

from . import common

common.bootstrap()

from . import refcodec as R
from .oracles import enum_table, kind_of

from bacpypes.primitivedata import (Atomic, Null, Boolean, Unsigned, Integer, Real, Double, OctetString, CharacterString, BitString,
                                    Enumerated, Date, Time, ObjectIdentifier, Tag, TagList, Unsigned8, Unsigned16)
from bacpypes.constructeddata import (Sequence, Choice, Any, AnyAtomic, Array, List, SequenceOfAny, Element)
import bacpypes.constructeddata as CD
from bacpypes.pdu import PDU, PDUData
import bacpypes.apdu as AP
import bacpypes.basetypes as BT


class CannotBuild(Exception):
    pass


def is_seqof(k):
    return k in CD._sequence_of_classes


def is_listof(k):
    return k in CD._list_of_classes


def is_arrayof(k):
    return k in CD._array_of_classes


def constructed_classes():
    """every Sequence / Choice subclass defined in apdu and basetypes (deduplicated, sorted by name)"""
    out = {}
    for mod in (BT, AP):
        for name, v in vars(mod).items():
            if inspect.isclass(v) and issubclass(v, (Sequence, Choice)) and v.__module__ == mod.__name__:
                if v in (AP.APCISequence, AP.ConfirmedRequestSequence, AP.ComplexAckSequence, AP.UnconfirmedRequestSequence, AP.ErrorSequence):
                    continue
                if issubclass(v, AP.APCISequence) and not any(v is k for t in (AP.confirmed_request_types, AP.complex_ack_types,
                                                                             AP.unconfirmed_request_types, AP.error_types) for k in t.values()):
                    continue            # a service class that is defined but not registered (no way onto the wire)
                out[v.__module__ + "." + name] = v
    return [out[k] for k in sorted(out)]


def registered_pdus():
    """(registry name, service choice, class)"""
    out = []
    for reg, table in (("confirmed", AP.confirmed_request_types), ("complex-ack", AP.complex_ack_types),
                       ("unconfirmed", AP.unconfirmed_request_types), ("error", AP.error_types)):
        for choice, klass in sorted(table.items()):
            out.append((reg, choice, klass))
    return out


# ----------------------------------------------------------------------
# atomic leaves
# ----------------------------------------------------------------------

def atomic_value(rng, klass):
    kind = klass._app_tag if klass is not AnyAtomic else None
    if kind == R.NULL:
        return ()
    if kind == R.BOOLEAN:
        return rng.random() < 0.5
    if kind == R.UNSIGNED:
        hi = getattr(klass, "_high_limit", None)
        v = rng.choice([0, 1, 127, 128, 255, 256, 65535, 65536, 2 ** 24, 2 ** 32 - 1, rng.getrandbits(16)])
        return v if hi is None else min(v, hi)
    if kind == R.INTEGER:
        return rng.choice([0, 1, -1, 127, 128, -128, -129, 32767, -32768, 2 ** 31 - 1, -2 ** 31, rng.getrandbits(20) - 2 ** 19])
    if kind == R.REAL:
        return struct.unpack(">f", struct.pack(">f", rng.choice([0.0, 1.0, -1.5, 72.3, 1e10, -1e-10, 3.4028234663852886e+38, rng.uniform(-1000, 1000)])))[0]
    if kind == R.DOUBLE:
        return rng.choice([0.0, 1.0, -1.5, 72.3, 1e300, -1e-300, rng.uniform(-1e6, 1e6)])
    if kind == R.OCTETS:
        return bytes(rng.getrandbits(8) for _ in range(rng.choice([0, 1, 3, 3, 6, 20])))
    if kind == R.CHARS:
        return rng.choice(["", "a", "OATemp", "caf\xe9", "中文", "x" * 40])
    if kind == R.BITS:
        n = getattr(klass, "bitLen", 0) or rng.choice([0, 1, 4, 8, 9])
        return [rng.getrandbits(1) for _ in range(n)]
    if kind == R.ENUM:
        table = enum_table(klass)
        if table and rng.random() < 0.9:
            return rng.choice(sorted(table))
        return rng.choice([0, 1, 300, 70000])
    if kind == R.DATE:
        return (rng.choice([0, 100, 124, 255]), rng.choice([1, 12, 13, 14, 255]), rng.choice([1, 28, 31, 32, 255]), rng.choice([1, 7, 255]))
    if kind == R.TIME:
        return (rng.choice([0, 12, 23, 255]), rng.choice([0, 30, 59, 255]), rng.choice([0, 59, 255]), rng.choice([0, 99, 255]))
    if kind == R.OBJID:
        return (rng.choice(["analogInput", "device", "binaryValue", "file", 200, 1023]), rng.choice([0, 1, 5, 0x3FFFFF, rng.getrandbits(22)]))
    raise CannotBuild("atomic %r" % (klass,))


ATOMIC_BASES = [Null, Boolean, Unsigned, Integer, Real, Double, OctetString, CharacterString, BitString, Enumerated, Date, Time, ObjectIdentifier]


def any_atomic(rng):
    k = rng.choice([Boolean, Unsigned, Integer, Real, Double, OctetString, CharacterString, BitString, Enumerated, Date, Time, ObjectIdentifier, Null])
    v = atomic_value(rng, k)
    if k is Enumerated and isinstance(v, str):
        v = 3
    return k(v) if k is not Null else Null()


# ----------------------------------------------------------------------
# generation
# ----------------------------------------------------------------------

ANY_POOL = [BT.TimeStamp, BT.DeviceObjectPropertyReference, BT.PropertyValue, BT.EventParameter, BT.DailySchedule, BT.SpecialEvent,
            BT.PriorityArray if hasattr(BT, "PriorityArray") else BT.DateTime, BT.Recipient, BT.Destination, BT.CalendarEntry,
            BT.LogRecord if hasattr(BT, "LogRecord") else BT.DateTime, BT.Scale, BT.Prescale, BT.ShedLevel]

def gen_element(rng, klass, depth, presence=None):
    """a value for an element of class klass"""
    if klass is Any or klass is SequenceOfAny:
        if klass is SequenceOfAny:
            raise CannotBuild("SequenceOfAny")
        a = Any()
        # the content of an Any: an atomic, a small list of atomics, or a small constructed value
        r = rng.random()
        if r < 0.4:
            a.cast_in(any_atomic(rng))
        elif r < 0.6:
            for _ in range(rng.randrange(0, 4)):
                a.cast_in(any_atomic(rng))
        elif r < 0.7 or depth > 3:
            a.cast_in(gen_element(rng, BT.DateTime, depth + 1))
        else:
            # a constructed value, so that the Any holds nested opening/closing pairs (depth 2 and more)
            k = rng.choice(ANY_POOL)
            try:
                a.cast_in(gen_element(rng, k, depth + 1))
            except CannotBuild:
                a.cast_in(gen_element(rng, BT.DateTime, depth + 1))
        return a
    if klass is AnyAtomic or (inspect.isclass(klass) and issubclass(klass, AnyAtomic)):
        return any_atomic(rng)
    if inspect.isclass(klass) and issubclass(klass, Atomic):
        return atomic_value(rng, klass)
    if is_seqof(klass) or is_listof(klass):
        n = rng.choice([0, 1, 2, 3]) if depth < 3 else rng.choice([0, 1])
        return [gen_element(rng, klass.subtype, depth + 1) for _ in range(n)]
    if is_arrayof(klass):
        n = klass.fixed_length if klass.fixed_length is not None else (rng.choice([0, 1, 2, 3]) if depth < 3 else rng.choice([0, 1]))
        return klass([gen_element(rng, klass.subtype, depth + 1) for _ in range(n)])
    if inspect.isclass(klass) and issubclass(klass, Choice):
        if depth > 5:
            els = [e for e in klass.choiceElements if inspect.isclass(e.klass) and issubclass(e.klass, Atomic)] or list(klass.choiceElements)
        else:
            els = list(klass.choiceElements)
        if not els:
            raise CannotBuild("empty choice %s" % klass.__name__)
        e = rng.choice(els) if presence is None else els[presence % len(els)]
        return klass(**{e.name: gen_element(rng, e.klass, depth + 1)})
    if inspect.isclass(klass) and issubclass(klass, Sequence):
        kw = {}
        opt = [e for e in klass.sequenceElements if e.optional]
        for e in klass.sequenceElements:
            if e.optional:
                k = opt.index(e)
                present = (presence >> k) & 1 if presence is not None else (rng.random() < (0.5 if depth < 3 else 0.15))
                if not present:
                    continue
            kw[e.name] = gen_element(rng, e.klass, depth + 1)
        return klass(**kw)
    raise CannotBuild("class %r" % (klass,))


# ----------------------------------------------------------------------
# normalisation
# ----------------------------------------------------------------------

def norm_atomic(klass, v):
    kind = klass._app_tag
    if kind == R.ENUM:
        if isinstance(v, str):
            t = enum_table(klass)
            return ("enum", t.get(v, v))
        return ("enum", int(v))
    if kind == R.REAL:
        if isinstance(v, float) and math.isnan(v):
            return ("real", "nan")
        return ("real", struct.pack(">f", v))
    if kind == R.DOUBLE:
        return ("double", struct.pack(">d", v))
    if kind == R.OBJID:
        t, i = v
        if isinstance(t, str):
            t = enum_table(klass.objectTypeClass)[t]
        return ("oid", t, i)
    if kind == R.BITS:
        return ("bits", tuple(int(b) for b in v))
    if kind == R.OCTETS:
        return ("octets", bytes(v))
    if kind in (R.DATE, R.TIME):
        return ("quad", tuple(v))
    if kind == R.NULL:
        return ("null",)
    if kind == R.BOOLEAN:
        return ("bool", bool(v))
    if kind in (R.UNSIGNED, R.INTEGER):
        return ("int", int(v))
    return ("str", v)


def norm_tags(taglist):
    return tuple((t.tagClass, t.tagNumber, t.tagLVT, bytes(t.tagData)) for t in taglist)


def norm(klass, v):
    if v is None:
        return None
    if klass is Any or klass is SequenceOfAny or isinstance(v, Any):
        return ("any", norm_tags(v.tagList.tagList))
    if klass is AnyAtomic or (inspect.isclass(klass) and issubclass(klass, AnyAtomic)):
        base = Tag._app_tag_class[v._app_tag]
        return ("anyatomic", v._app_tag, norm_atomic(base, v.value))
    if inspect.isclass(klass) and issubclass(klass, Atomic):
        return norm_atomic(klass, v)
    if is_seqof(klass) or is_listof(klass):
        return ("list",) + tuple(norm(klass.subtype, x) for x in v)
    if is_arrayof(klass) or (inspect.isclass(klass) and issubclass(klass, Array) and getattr(klass, "subtype", None) is not None):
        items = v.value[1:] if isinstance(v, Array) else v
        return ("array",) + tuple(norm(klass.subtype, x) for x in items)
    if inspect.isclass(klass) and issubclass(klass, Choice):
        out = []
        for e in klass.choiceElements:
            x = getattr(v, e.name, None)
            if x is not None:
                out.append((e.name, norm(e.klass, x)))
        return ("choice", klass.__name__) + tuple(out)
    if inspect.isclass(klass) and issubclass(klass, Sequence):
        out = []
        for e in klass.sequenceElements:
            x = getattr(v, e.name, None)
            out.append((e.name, norm(e.klass, x)))
        return ("seq", klass.__name__) + tuple(out)
    return ("?", repr(v))


# ----------------------------------------------------------------------
# encode / decode paths
# ----------------------------------------------------------------------

def encode_constructed(v):
    tl = TagList()
    v.encode(tl)
    pdu = PDUData()
    tl.encode(pdu)
    return bytes(pdu.pduData)


def decode_constructed(klass, octets):
    tl = TagList()
    tl.decode(PDUData(octets))
    x = klass()
    x.decode(tl)
    return x, len(tl)


PDU_CONTAINER = {"confirmed": AP.ConfirmedRequestPDU, "complex-ack": AP.ComplexAckPDU, "unconfirmed": AP.UnconfirmedRequestPDU, "error": AP.ErrorPDU}
REGISTRY = {"confirmed": AP.confirmed_request_types, "complex-ack": AP.complex_ack_types, "unconfirmed": AP.unconfirmed_request_types,
            "error": AP.error_types}


def encode_pdu(reg, choice, v):
    """full production path: service class -> typed PDU -> APDU -> octets"""
    if reg == "error":
        v.apduService = choice
    if reg != "unconfirmed":
        v.apduInvokeID = 7
    x = PDU_CONTAINER[reg]()
    v.encode(x)
    if reg == "confirmed":
        x.apduMaxSegs = 0
        x.apduMaxResp = 5
        x.apduSA = False
    a = AP.APDU()
    x.encode(a)
    pdu = PDU()
    a.encode(pdu)
    return bytes(pdu.pduData)


def decode_pdu(reg, octets):
    a = AP.APDU()
    a.decode(PDU(octets))
    t = AP.apdu_types[a.apduType]()
    t.decode(a)
    klass = REGISTRY[reg].get(t.apduService)
    if klass is None:
        raise KeyError("service %r not registered" % (t.apduService,))
    z = klass()
    z.decode(t)
    return z, t
